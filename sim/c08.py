"""The C08 machine (DESIGN §5): seeded histories of registry requests, library requests
that consume indices, expression builds and renamings, with aborts and other faults,
checked against the registry model (R1-R5), an independent simultaneous-substitution
oracle, the documented lowest-names order and the exact tensor model.

``generate(seed, run, tier)`` is a pure function of its arguments (it never looks at the
session); ``execute(job)`` runs a schedule inside a session and returns the event log.
"""
import os

from .seeds import derive, digest

OCC, VIRT, GEN = "ijklmno", "abcdefgh", "pqrstuvw"
LETTERS = {"occ": OCC, "virt": VIRT, "general": GEN}


# ======================================================================== generation
def _names_pool(rng, space, spin_mode):
    """a small universe of names for one run"""
    letters = LETTERS[space]
    plain = list(letters[:rng.choice([3, 4, 5, 7])])
    numbered = [rng.choice(letters) + str(rng.choice([1, 1, 2])) for _ in range(2)]
    if rng.random() < 0.15:
        # unusual but accepted spellings of the number
        numbered.append(rng.choice(letters) + rng.choice(["0", "01", "03", "004", "10"]))
    pooled = [rng.choice(letters) + str(rng.choice([3, 3, 4, 4, 5, 6, 9, 10, 11, 12, 19, 20,
                                                     29, 30]))
              for _ in range(rng.choice([0, 1, 2, 3]))]
    return plain, numbered, pooled


def _pick_spin(rng, spin_mode):
    if not spin_mode:
        return ""
    return rng.choice("ab")


def _gen_atom(rng, avail, spin_mode):
    """avail: {space: [idxtoken,...]} with idxtoken = 'name' or 'name:spin'"""
    def take(space, n):
        pool = avail[space]
        if len(pool) < n:
            return None
        return rng.sample(pool, n)

    def any_space():
        return rng.choice(["occ", "virt", "occ", "virt", "general"])
    kind = rng.choice(["V", "V", "f", "t2", "t1", "X", "Y", "w", "v", "delta", "sym1"])
    if kind == "V":
        su, sl = any_space(), any_space()
        if su == sl:
            got = take(su, 4)
            if not got:
                return None
            return ["ast", "V", got[:2], got[2:], 0]
        u, lo = take(su, 2), take(sl, 2)
        if not u or not lo:
            return None
        return ["ast", "V", u, lo, 0]
    if kind == "f":
        su, sl = any_space(), any_space()
        if su == sl:
            got = take(su, 2)
            if not got:
                return None
            return ["ast", "f", got[:1], got[1:], rng.choice([0, 0, 1])]
        u, lo = take(su, 1), take(sl, 1)
        if not u or not lo:
            return None
        return ["ast", "f", u, lo, 0]
    if kind in ("t2", "X", "Y"):
        n = rng.choice([1, 2])
        u, lo = take("virt", n), take("occ", n)
        if not u or not lo:
            return None
        name = {"t2": rng.choice(["t1", "t2", "t1cc"]), "X": "X", "Y": "Y"}[kind]
        return ["amp", name, u, lo, 0]
    if kind == "t1":
        u, lo = take("virt", 1), take("occ", 1)
        if not u or not lo:
            return None
        return ["amp", "t2", u, lo, 0]
    if kind == "w":
        n = rng.choice([1, 2, 3])
        idx = []
        for _ in range(n):
            sp = any_space()
            if not avail[sp]:
                return None
            idx.append(rng.choice(avail[sp]))
        return ["nst", "w", idx]
    if kind == "v":
        su, sl = any_space(), any_space()
        u, lo = take(su, 2), take(sl, 2)
        if su == sl:
            got = take(su, 4)
            if not got:
                return None
            u, lo = got[:2], got[2:]
        if not u or not lo:
            return None
        return ["sym", "v", u, lo, rng.choice([0, 1])]
    if kind == "sym1":
        su = any_space()
        got = take(su, 2)
        if not got:
            return None
        return ["ast", "d", got[:1], got[1:], rng.choice([0, 1, -1])]
    if kind == "delta":
        sp = any_space()
        got = take(sp, 2)
        if not got:
            return None
        return ["delta", got[0], got[1]]
    return None


def _gen_build(rng, spin_mode, slot):
    """random sum of products with an explicit target tuple"""
    # index tokens of this expression
    n_occ, n_virt = rng.choice([1, 2, 3, 4]), rng.choice([1, 2, 3, 4])
    n_gen = rng.choice([0, 0, 0, 1, 2])

    def toks(space, n):
        plain, numbered, pooled = _names_pool(rng, space, spin_mode)
        cand = plain + plain + numbered + pooled
        out = []
        for _ in range(n * 3):
            if len(out) == n:
                break
            nm = rng.choice(cand)
            sp = _pick_spin(rng, spin_mode)
            tok = f"{nm}:{sp}" if sp else nm
            if tok not in out:
                out.append(tok)
        return out
    avail = {"occ": toks("occ", n_occ), "virt": toks("virt", n_virt),
             "general": toks("general", n_gen)}
    allidx = avail["occ"] + avail["virt"] + avail["general"]
    # targets: plain / numbered names only (never a name of the generic generations)
    cand_t = [t for t in allidx if _suffix(t) < 3]
    n_t = rng.choice([0, 1, 2, 2, 3, 4])
    targets = rng.sample(cand_t, min(n_t, len(cand_t)))
    terms = []
    for _ in range(rng.choice([1, 1, 1, 2, 3])):
        atoms = []
        for _ in range(rng.choice([1, 2, 3, 3, 4, 5])):
            a = _gen_atom(rng, avail, spin_mode)
            if a is not None:
                if rng.random() < 0.08 and a[0] != "delta":
                    a = ["pow", a, 2]
                atoms.append(a)
        if rng.random() < 0.12 and allidx:
            # a normal-ordered operator string; an index may sit on a creator and on an
            # annihilator of the same string (a summed index of the string itself)
            ops = []
            for _ in range(rng.choice([1, 1, 2])):
                p = rng.choice(allidx)
                q = p if rng.random() < 0.5 else rng.choice(allidx)
                ops += [["c", p], ["a", q]]
            atoms.append(["no", ops])
        if not atoms:
            continue
        if rng.random() < 0.25 and avail["occ"] and avail["virt"]:
            den = [[rng.choice(avail["virt"]), 1], [rng.choice(avail["occ"]), -1]]
            if rng.random() < 0.5 and len(avail["virt"]) > 1 and len(avail["occ"]) > 1:
                den = [[t, 1] for t in rng.sample(avail["virt"], 2)] + \
                      [[t, -1] for t in rng.sample(avail["occ"], 2)]
            atoms.append(["denom", den, rng.choice([1, 1, 2])])
        pref = [rng.choice([1, -1, 1, -1, 2, 3, -5]), rng.choice([1, 1, 2, 4, 3])]
        terms.append({"pref": pref, "atoms": atoms})
    st = {"op": "build", "slot": slot, "terms": terms, "targets": targets}
    if len(terms) >= 2 and rng.random() < 0.5:
        # the sum is multiplied by common factors and handed to the library UNEXPANDED
        fac = []
        nest = len(terms) >= 3 and rng.random() < 0.4
        for _ in range(2 if nest else rng.choice([1, 1, 2])):
            a = _gen_atom(rng, avail, spin_mode)
            if a is not None:
                fac.append(a)
        if fac:
            st["factor"] = fac
            if nest and len(fac) == 2:
                # brackets nested two levels deep:  F1 * (t1 + F2 * (t2 + t3 + ...))
                st["nest"] = 1
    return st


def _gen_wide_build(rng, spin_mode, slot):
    """a product with many indices of one space (more than the 7 / 8 base letters), so that
    the lowest available names run into the numbered generations i1, j1, ..."""
    space = rng.choice(["occ", "virt", "general"])
    letters = LETTERS[space]
    n = rng.choice([6, 8, 9, 10, 12])
    spin = _pick_spin(rng, spin_mode)
    cand = list(letters) + [ch + "1" for ch in letters] + [ch + "2" for ch in letters[:3]] + \
        [rng.choice(letters) + str(rng.choice([3, 4, 7, 10, 11])) for _ in range(4)]
    toks = []
    for nm in rng.sample(cand, min(n, len(cand))):
        tok = f"{nm}:{spin}" if spin else nm
        if tok not in toks:
            toks.append(tok)
    cand_t = [t for t in toks if _suffix(t) < 3]
    targets = rng.sample(cand_t, min(rng.choice([0, 1, 2, 3, 5]), len(cand_t)))
    atoms = []
    order = toks[:]
    rng.shuffle(order)
    for a, b in zip(order, order[1:] + order[:1]):
        atoms.append(["nst", rng.choice(["w", "w", "u"]), [a, b]])
    if rng.random() < 0.5 and len(toks) >= 4:
        q = rng.sample(toks, 4)
        atoms.append(["ast", "V", q[:2], q[2:], 0])
    return {"op": "build", "slot": slot, "targets": targets,
            "terms": [{"pref": [rng.choice([1, -1, 2]), rng.choice([1, 3])], "atoms": atoms}]}


def _suffix(tok):
    name = tok.split(":")[0]
    return int(name[1:]) if name[1:] else 0


def _gen_map(rng):
    """shape of an index map, resolved against the live expression at execution time:
    positions refer to the expression's indices in a canonical order"""
    shape = rng.choice(["injective", "chain", "cycle", "cycle", "mixed", "many2one",
                        "identity", "two_cycles", "long_chain", "cross"])
    return {"shape": shape, "picks": [rng.randrange(1 << 30) for _ in range(12)],
            "n": rng.choice([2, 3, 3, 4, 5])}


def generate(seed, run, tier="quick", overrides=None):
    rng = derive(seed, "c08", "schedule", run)
    prng = derive(seed, "c08", "params", run)
    spin_mode = prng.random() < 0.25
    faultfree = (run % 3 == 0)
    n_ops = prng.choice([12, 20, 30, 40, 60] if tier == "quick"
                        else [20, 40, 60, 100, 160, 240, 400])
    params = {
        "spin_mode": spin_mode,
        "n_occ": prng.choice([2, 3]), "n_virt": prng.choice([2, 3]),
        "dummy_base": prng.randrange(10 ** 6, 9 * 10 ** 6),
        "dummy_count": prng.choice([0, 0, 17, 1000, 123456]),
        "heap_skew": prng.choice([0, 100, 5000, 40000]),
        "log_level": prng.choice(["ERROR", "INFO", "DEBUG"]),
        "clock_step": prng.choice([0.0, 0.001, 3600.0]),
        "singles": prng.random() < 0.4,
        "variant": prng.choice(["mp", "mp", "re"]),
        "abort_mode": "state" if (tier == "quick" or prng.random() < 0.7) else "global",
        "faultfree": faultfree,
        "model_seed": prng.randrange(1 << 30),
    }
    weights = {
        "reg.get": prng.choice([1, 3, 6]), "reg.generic": prng.choice([1, 3, 6]),
        "reg.bad": 0 if faultfree else prng.choice([0, 1, 2]),
        "reg.space": prng.choice([0, 1, 1]),
        "lib": prng.choice([0, 1, 3]), "build": prng.choice([3, 5]),
        "rename.sc": prng.choice([1, 3]), "rename.gen": prng.choice([1, 3]),
        "rename.permute": prng.choice([1, 3]), "rename.subs": prng.choice([1, 3, 5]),
        "rename.minimize": prng.choice([0, 1, 2]), "rename.copy": prng.choice([0, 1]),
        "rename.term": prng.choice([0, 1, 2]), "rename.after": prng.choice([0, 1, 2]),
        "respin": prng.choice([1, 2]) if spin_mode else 0,
        "misc": 0 if faultfree else prng.choice([0, 1]),
    }
    kinds = [k for k, w in weights.items() for _ in range(w)]
    steps = []
    n_slots = prng.choice([2, 4, 6])
    max_aborts = 0 if faultfree else prng.choice([0, 1, 2, 2])
    helper_threads = prng.random() < 0.3
    aborts = 0
    # always start with something to rename
    steps.append(_gen_build(rng, spin_mode, 0))
    for _ in range(n_ops):
        k = rng.choice(kinds)
        st = None
        if k == "build":
            if rng.random() < 0.15:
                st = _gen_wide_build(rng, spin_mode, rng.randrange(n_slots))
            else:
                st = _gen_build(rng, spin_mode, rng.randrange(n_slots))
        elif k == "reg.get":
            names, spins = [], []
            for _ in range(rng.choice([1, 1, 2, 3, 4, 6])):
                sp = rng.choice(["occ", "virt", "general"])
                plain, numbered, pooled = _names_pool(rng, sp, spin_mode)
                nm = rng.choice(plain + numbered + pooled + pooled)
                names.append(nm)
                spins.append(rng.choice(["", "", "a", "b"]) if spin_mode or
                             rng.random() < 0.15 else "")
            via = rng.choice(["get_indices", "get_symbols", "get_indices_str"])
            if via == "get_indices_str" and any(spins) and "" in spins:
                via = "get_indices"
            st = {"op": "reg.get", "names": names, "spins": spins, "via": via}
        elif k == "reg.generic":
            kw = {}
            for _ in range(rng.choice([1, 1, 2, 3])):
                sp = rng.choice(["occ", "virt", "general"])
                spin = rng.choice(["", "", "", "a", "b"]) if spin_mode or \
                    rng.random() < 0.2 else ""
                key = f"{sp}_{spin}" if spin else sp
                kw[key] = rng.choice([0, 1, 2, 2, 3, 4, 5, 7, 9, 15, 15, 31, 52, 75])
            st = {"op": "reg.generic", "kw": kw}
        elif k == "reg.space":
            st = {"op": "reg.space", "space": rng.choice(
                ["ph", "pphh", "h", "p", "hh", "pph", "phh", "ppphhh", "hp", "hhpp", "pp", ""])}
        elif k == "reg.bad":
            st = {"op": "reg.bad", "variant": rng.choice(
                ["len_mismatch", "bad_letter", "bad_letter_late", "bad_letter_late_plain",
                 "bad_key", "bad_spin", "bad_generic_space"]), "pick": rng.randrange(1 << 20)}
        elif k == "lib":
            which = rng.choice(["psi", "psi", "h1", "operator", "energy", "expand_itmd",
                                "expand_itmd", "import", "norm_factor", "amplitude"])
            st = {"op": "lib", "which": which, "pick": rng.randrange(1 << 20)}
        elif k == "respin":
            st = {"op": "respin", "slot": rng.randrange(n_slots), "mask": rng.randrange(1, 16)}
        elif k.startswith("rename."):
            st = {"op": k, "slot": rng.randrange(n_slots)}
            if rng.random() < 0.5:
                st["route"] = rng.randrange(1, 7)
            if k == "rename.permute":
                st["perms"] = [[rng.randrange(1 << 20), rng.randrange(1 << 20)]
                               for _ in range(rng.choice([1, 2, 2, 3, 4]))]
                st["pform"] = rng.choice([0, 0, 1, 2, 2])
                st["rep"] = rng.random() < 0.35
            elif k == "rename.subs":
                st["map"] = _gen_map(rng)
            elif k == "rename.minimize":
                st["pick"] = rng.randrange(1 << 20)
            elif k == "rename.copy":
                st["how"] = rng.choice(["sc", "gen"])
            elif k == "rename.after":
                st["pre"] = rng.choice(["diag_fock", "diag_fock", "block_diag", "symbolic",
                                        "rename_tensor", "expand"])
                st["derive"] = rng.choice(["copy", "mul", "add", "term", "none"])
                st["how"] = rng.choice(["sc", "gen"])
                st["route"] = rng.choice([6, 6, 0, 1, 2, 3, 4, 5])
            elif k == "rename.term":
                st["how"] = rng.choice(["permute", "permute", "sc", "gen"])
                st["pick"] = rng.randrange(1 << 20)
                st["perms"] = [[rng.randrange(1 << 20), rng.randrange(1 << 20)]
                               for _ in range(rng.choice([1, 2, 3]))]
                st["pform"] = rng.choice([0, 0, 1, 2, 2])
                st["rep"] = rng.random() < 0.35
        elif k == "misc":
            st = rng.choice([{"op": "sympy.clear_cache"},
                             {"op": "dummy.skew", "n": rng.choice([1, 7, 200, 10 ** 5])},
                             {"op": "clock.jump", "dt": rng.choice([-5.0, 0.0, 86400.0])}])
        if st is None:
            continue
        if aborts < max_aborts and st["op"] in ("reg.get", "reg.generic", "lib",
                                                 "rename.sc", "rename.gen", "rename.copy") \
                and rng.random() < 0.12:
            st["abort"] = {"kind": rng.choice(["kbi", "kbi", "mem"]),
                           "u": rng.random()}
            aborts += 1
        elif helper_threads and rng.random() < 0.35:
            # the step is issued from another caller thread (one thread runs at a time: the
            # main thread waits for it) - the registry is shared by all threads of a process
            st["thread"] = True
        steps.append(st)
    if overrides:
        params.update(overrides)
    return params, steps


def shrink_step(st):
    """candidate simplifications of one step (argument-level minimisation)"""
    out = []
    op = st["op"]
    if op == "build":
        if len(st["terms"]) > 1:
            for i in range(len(st["terms"])):
                out.append(dict(st, terms=st["terms"][:i] + st["terms"][i + 1:]))
        for ti, t in enumerate(st["terms"]):
            if len(t["atoms"]) > 1:
                for ai in range(len(t["atoms"])):
                    t2 = dict(t, atoms=t["atoms"][:ai] + t["atoms"][ai + 1:])
                    out.append(dict(st, terms=st["terms"][:ti] + [t2] + st["terms"][ti + 1:]))
            if t["pref"] != [1, 1]:
                t2 = dict(t, pref=[1, 1])
                out.append(dict(st, terms=st["terms"][:ti] + [t2] + st["terms"][ti + 1:]))
        if st["targets"]:
            for i in range(len(st["targets"])):
                out.append(dict(st, targets=st["targets"][:i] + st["targets"][i + 1:]))
    elif op == "reg.generic":
        for k, v in st["kw"].items():
            if len(st["kw"]) > 1:
                out.append(dict(st, kw={a: b for a, b in st["kw"].items() if a != k}))
            for smaller in {max(1, v // 2), max(1, v - 1)} - {v}:
                out.append(dict(st, kw=dict(st["kw"], **{k: smaller})))
    elif op == "reg.get" and len(st["names"]) > 1:
        for i in range(len(st["names"])):
            out.append(dict(st, names=st["names"][:i] + st["names"][i + 1:],
                            spins=st["spins"][:i] + st["spins"][i + 1:]))
    elif op in ("rename.permute", "rename.term") and len(st.get("perms", [])) > 1:
        for i in range(len(st["perms"])):
            out.append(dict(st, perms=st["perms"][:i] + st["perms"][i + 1:]))
    elif op == "rename.subs" and "pairs" in st and len(st["pairs"]) > 1:
        for i in range(len(st["pairs"])):
            out.append(dict(st, pairs=st["pairs"][:i] + st["pairs"][i + 1:]))
    return out


# ======================================================================== execution
class Violation(Exception):
    pass


class C08Session:
    def __init__(self, job):
        import adcgen  # noqa: F401  (already imported by boot)
        from adcgen.indices import Indices, Index
        from adcgen.misc import Inputerror
        from . import runtime
        from .registry_model import RegistryModel
        self.job = job
        self.params = job["params"]
        self.seams = runtime.apply_session_params(self.params)
        self.Index = Index
        self.Inputerror = Inputerror
        self.violations = []
        self.events = []
        self.cur_step = -1
        self.ind = Indices()
        self.model = RegistryModel(self.ind, Index, Inputerror, self._on_violation)
        self.slots = {}
        self.psis = []
        self.norms = []
        self.injector = None
        self.fault_fired = []
        self.fault_missed = 0
        self.probes = {"cycle_map": 0, "chain_map": 0, "many2one_map": 0, "three_cycle": 0,
                       "identity_entry": 0, "sc_changed": 0, "gen_renamed": 0,
                       "permute_noncommuting": 0, "value_checked": 0,
                       "value_not_evaluable": 0, "minimize_changed": 0,
                       "abort_in_registry": 0, "pooled_explicit_first": 0,
                       "expr_zero_skipped": 0, "psi_pairs": 0}
        self.counts = {}
        self.itmd_fp = {}
        self.selfcheck = []
        self.abort_n = []
        self._objs = None

    # ---------------------------------------------------------------- helpers
    def _on_violation(self, v):
        v = dict(v)
        v["step"] = self.cur_step
        v["property"] = "C08"
        self.violations.append(v)

    def viol(self, cls, rule, detail):
        self._on_violation({"class": cls, "rule": rule, "detail": detail})

    def objs(self):
        if self._objs is None:
            from adcgen import Operators, GroundState
            op = Operators(self.params.get("variant", "mp"))
            gs = GroundState(op, first_order_singles=self.params.get("singles", False))
            self._objs = (op, gs)
        return self._objs

    def sym(self, tok):
        """resolve an index token through the registry"""
        from adcgen.indices import get_symbols
        name, _, spin = tok.partition(":")
        return get_symbols([name], spin or None)[0]

    def mk_atom(self, a):
        from adcgen.sympy_objects import (AntiSymmetricTensor, Amplitude, SymmetricTensor,
                                          NonSymmetricTensor, KroneckerDelta)
        from sympy import Pow
        kind = a[0]
        if kind in ("ast", "amp", "sym"):
            cls = {"ast": AntiSymmetricTensor, "amp": Amplitude, "sym": SymmetricTensor}[kind]
            return cls(a[1], [self.sym(t) for t in a[2]], [self.sym(t) for t in a[3]], a[4])
        if kind == "nst":
            return NonSymmetricTensor(a[1], [self.sym(t) for t in a[2]])
        if kind == "delta":
            return KroneckerDelta(self.sym(a[1]), self.sym(a[2]))
        if kind == "pow":
            return Pow(self.mk_atom(a[1]), a[2])
        if kind == "no":
            from sympy.physics.secondquant import NO, Fd, F
            from sympy import Mul
            cr = [self.sym(t) for k, t in a[1] if k == "c"]
            an = [self.sym(t) for k, t in a[1] if k == "a"]
            if len(set(cr)) < len(cr) or len(set(an)) < len(an):
                from sympy import S
                return S.Zero       # the same operator twice: the string vanishes
            return NO(Mul(*([Fd(t) for t in cr] + [F(t) for t in an])))
        if kind == "denom":
            d = 0
            for tok, sign in a[1]:
                d += sign * NonSymmetricTensor("e", (self.sym(tok),))
            return Pow(d, -a[2])
        raise ValueError(kind)

    def names_of(self, key):
        return self.model.known[key]

    def fp(self, expr, targets):
        """value fingerprint or None"""
        from .tensor_model import fingerprint, NotEvaluable
        leaves = 1
        for s in expr.atoms(self.Index):
            sp, spin = self.key_of(s)
            w = 2 if spin else {"occ": self.params["n_occ"], "virt": self.params["n_virt"],
                                "general": self.params["n_occ"] + self.params["n_virt"]}[sp]
            leaves *= (2 * w if (spin and sp == "general") else w)
        if leaves > 300000:
            self.probes["value_too_wide"] = self.probes.get("value_too_wide", 0) + 1
            return None
        try:
            h, _ = fingerprint(expr, targets, model_seeds=(self.params["model_seed"],),
                               n_occ=self.params["n_occ"], n_virt=self.params["n_virt"],
                               rng_seed=self.params["model_seed"], limit=16)
            self.probes["value_checked"] += 1
            return h
        except (NotEvaluable, ZeroDivisionError):
            self.probes["value_not_evaluable"] += 1
            return None

    # ---------------------------------------------------------------- oracles
    def same_value_all_indices(self, x, y):
        """two structurally different expressions: equal as tensor expressions, i.e. for
        every assignment of *all* their indices?  (The library does not reduce tensors
        that vanish by their own symmetry, e.g. d^{j}_{j} with bra-ket antisymmetry, so
        +d^{j}_{j} and -d^{j}_{j} are both legitimate outcomes.)"""
        from sympy import zoo, nan
        if x.has(zoo, nan) or y.has(zoo, nan):
            return False
        idx = tuple(sorted(x.atoms(self.Index) | y.atoms(self.Index),
                           key=lambda s: (self.key_of(s), _suffix(s.name), s.name,
                                          s.dummy_index)))
        self.probes["structural_diff"] = self.probes.get("structural_diff", 0) + 1
        xe, ye = x.expand(), y.expand()
        if xe == ye:
            # the same polynomial written with / without common factors pulled out
            return True
        fx, fy = self.fp_all(x, idx), self.fp_all(y, idx)
        if fx is None or fy is None:
            # not evaluable by the tensor model (operator strings): identical alpha-normal
            # form with every index held fixed
            from .alpha import normal_form
            nx = normal_form(xe, idx, Index=self.Index)
            ny = normal_form(ye, idx, Index=self.Index)
            return nx is not None and nx == ny
        return fx == fy

    def fp_all(self, expr, idx):
        from .tensor_model import fingerprint, NotEvaluable
        try:
            h, _ = fingerprint(expr, idx, model_seeds=(self.params["model_seed"], 77),
                               n_occ=self.params["n_occ"], n_virt=self.params["n_virt"],
                               rng_seed=self.params["model_seed"], limit=48)
            return h
        except (NotEvaluable, ZeroDivisionError):
            return None

    @staticmethod
    def key_of(idx):
        a = idx.assumptions0
        sp = "occ" if a.get("below_fermi") else "virt" if a.get("above_fermi") else "general"
        spin = "a" if a.get("alpha") else "b" if a.get("beta") else ""
        return (sp, spin)

    def canon_indices(self, expr):
        """indices of an expression in an order that does not depend on hashing"""
        idx = expr.atoms(self.Index)
        return sorted(idx, key=lambda s: (self.key_of(s), _suffix(s.name), s.name))

    @staticmethod
    def lowest_names(space, n, used):
        base = LETTERS[space]
        out, suffix = [], 0
        while len(out) < n:
            for ch in base:
                nm = ch + (str(suffix) if suffix else "")
                if nm not in used:
                    out.append(nm)
                    if len(out) == n:
                        break
            suffix += 1
        return out

    def check_targets_untouched(self, before, after, targets, what):
        tnames = {(t.name,) + self.key_of(t): t for t in targets}
        for s in after.atoms(self.Index):
            k = (s.name,) + self.key_of(s)
            if k in tnames and s is not tnames[k]:
                self.viol("rename", "c-target", f"{what}: index {s} carries the name of "
                          f"target {tnames[k]} but is a different object")
        terms_b = before.args if before.is_Add else (before,)
        terms_a = after.args if after.is_Add else (after,)
        if len(terms_b) == 1 and len(terms_a) == 1:
            tb = before.atoms(self.Index) & set(targets)
            ta = after.atoms(self.Index) & set(targets)
            if tb != ta:
                self.viol("rename", "c-target", f"{what}: targets present before "
                          f"{sorted(map(str, tb))} != after {sorted(map(str, ta))}")
            cb = self._count_contracted(before, targets)
            ca = self._count_contracted(after, targets)
            if cb != ca and after != 0:
                self.viol("rename", "c-merge", f"{what}: distinct contracted indices per "
                          f"(space, spin) changed {cb} -> {ca}")

    def _count_contracted(self, expr, targets):
        out = {}
        for s in expr.atoms(self.Index):
            if s in targets:
                continue
            k = "%s_%s" % self.key_of(s)
            out[k] = out.get(k, 0) + 1
        return dict(sorted(out.items()))

    def check_lowest(self, after, targets, what):
        tn = {}
        for t in targets:
            tn.setdefault(self.key_of(t), set()).add(t.name)
        for term in (after.args if after.is_Add else (after,)):
            per = {}
            for s in term.atoms(self.Index):
                if s in targets:
                    continue
                per.setdefault(self.key_of(s), set()).add(s.name)
            for key, names in per.items():
                want = set(self.lowest_names(key[0], len(names), tn.get(key, set())))
                if names != want:
                    self.viol("rename", "d-lowest", f"{what}: contracted {key} names "
                              f"{sorted(names)} in term {term}, documented lowest available "
                              f"are {sorted(want)} (targets {sorted(tn.get(key, []))})")
                    return

    # ---------------------------------------------------------------- steps
    def do_step(self, st):
        op = st["op"]
        fn = getattr(self, "op_" + op.replace(".", "_"))
        if st.get("thread") and "abort" not in st:
            import threading
            box = {}

            def run():
                try:
                    box["r"] = fn(st)
                except BaseException as exc:  # noqa: BLE001 - re-raised in the main thread
                    box["e"] = exc
            th = threading.Thread(target=run, name="sim-caller-2")
            th.start()
            th.join()
            self.probes["steps_in_helper_thread"] = \
                self.probes.get("steps_in_helper_thread", 0) + 1
            if "e" in box:
                raise box["e"]
            return box["r"]
        return fn(st)

    def op_build(self, st):
        from sympy import Rational, S
        expr = S.Zero
        tlist = []
        for t in st["terms"]:
            term = Rational(*t["pref"])
            for a in t["atoms"]:
                term *= self.mk_atom(a)
            expr += term
            tlist.append(term)
        targets = tuple(self.sym(t) for t in st["targets"])
        raw = None
        if st.get("factor") and expr.is_Add:
            from sympy import Mul, Add
            fac = [self.mk_atom(a) for a in st["factor"]]
            if st.get("nest") and len(fac) >= 2 and len(tlist) >= 3:
                raw = Mul(fac[0], Add(tlist[0], Mul(fac[1], Add(*tlist[1:]))))
                self.probes["nested_input"] = self.probes.get("nested_input", 0) + 1
            else:
                raw = Mul(expr, *fac, evaluate=True)
            expr = raw
        expr = expr.expand()
        if expr == 0:
            self.probes["expr_zero_skipped"] += 1
            return {"built": "0"}
        # precondition (DESIGN §5.2): a name already handed out as generic is never a target
        targets = tuple(t for t in targets
                        if not self.model.was_generic(self.key_of(t), t.name))
        self.slots[st["slot"]] = {"expr": expr, "targets": targets, "fp": None, "spec": st,
                                  "raw": raw if (raw is not None and raw != expr) else None}
        if self.slots[st["slot"]]["raw"] is not None:
            self.probes["unexpanded_input"] = self.probes.get("unexpanded_input", 0) + 1
        return {"built": str(expr), "targets": [str(t) for t in targets]}

    def op_respin(self, st):
        """rebuild a slot's expression with the spin labels of (some of) its target indices
        flipped, everything else - in particular the contracted index objects - unchanged"""
        sl = self._slot(st)
        if sl is None or "spec" not in sl:
            return {"skip": True}
        import json
        spec = sl["spec"]
        flips = {}
        for n, t in enumerate(spec["targets"]):
            name, _, spin = t.partition(":")
            if spin and (st["mask"] >> n) & 1:
                flips[t] = f"{name}:{'b' if spin == 'a' else 'a'}"
        if not flips:
            return {"skip": True}
        def swap(x):
            if isinstance(x, str):
                return flips.get(x, x)
            if isinstance(x, list):
                return [swap(y) for y in x]
            if isinstance(x, dict):
                return {k: swap(v) for k, v in x.items()}
            return x
        new_spec = swap(json.loads(json.dumps(spec)))
        return self.op_build(dict(new_spec, op="build"))

    def _slot(self, st):
        if not self.slots:
            return None
        keys = sorted(self.slots)
        return self.slots[keys[st["slot"] % len(keys)]]

    def _fp_slot(self, sl):
        if sl["fp"] is None:
            sl["fp"] = self.fp(sl["expr"], sl["targets"]) or "n/a"
        return sl["fp"]

    def _compare_value(self, sl, after, what):
        b = self._fp_slot(sl)
        if b == "n/a":
            return
        a = self.fp(after, sl["targets"])
        if a is not None and a == b and not what.startswith("copy"):
            # self-check of the structural oracle used by C19: a renaming of contracted
            # indices that preserves the value must preserve the alpha-normal form
            from .alpha import normal_form
            n1 = normal_form(sl["expr"], sl["targets"], Index=self.Index)
            n2 = normal_form(after, sl["targets"], Index=self.Index)
            if n1 is None or n2 is None:
                self.probes["anf_gaveup"] = self.probes.get("anf_gaveup", 0) + 1
            else:
                self.probes["anf_checked"] = self.probes.get("anf_checked", 0) + 1
                if n1 != n2:
                    self.viol("rename", "c-structure", f"{what}: the result is not equal to "
                              f"the input modulo renaming of contracted indices (alpha-normal "
                              f"forms differ; the values happen to agree in the small model): "
                              f"{sl['expr']} -> {after} targets {sl['targets']}")
        if a is not None and a != b:
            self.viol("rename", "c-value", f"{what}: value changed (fingerprint {b} -> {a}); "
                      f"before {sl['expr']} after {after} targets {sl['targets']}")

    def op_rename_sc(self, st, copy_mode=False):
        from adcgen import Expr
        copy_mode = copy_mode or bool(st.get("keep"))
        sl = self._slot(st)
        if sl is None:
            return {"skip": True}
        e = self.make_expr(sl, st.get("route", 0))
        after = e.substitute_contracted().sympy
        what = "substitute_contracted"
        self.check_targets_untouched(sl["expr"], after, sl["targets"], what)
        self.check_lowest(after, sl["targets"], what)
        self._compare_value(sl, after, what)
        if after != sl["expr"]:
            self.probes["sc_changed"] += 1
        if not copy_mode:
            sl["expr"] = after
            sl["raw"] = None
        return {"sc": str(after)}

    def op_rename_gen(self, st, copy_mode=False):
        from adcgen import Expr
        copy_mode = copy_mode or bool(st.get("keep"))
        sl = self._slot(st)
        if sl is None:
            return {"skip": True}
        before_names = {k: set(v) for k, v in self.model.known.items()}
        e = self.make_expr(sl, st.get("route", 0))
        after = e.substitute_with_generic().sympy
        what = "substitute_with_generic"
        self.check_targets_untouched(sl["expr"], after, sl["targets"], what)
        for s in after.atoms(self.Index):
            if s in sl["targets"]:
                continue
            if s.name in before_names[self.key_of(s)]:
                self.viol("rename", "e-fresh", f"{what}: contracted index {s} of the result "
                          f"{after} carries a name that had been handed out before")
                break
        self._compare_value(sl, after, what)
        self.probes["gen_renamed"] += 1
        if not copy_mode:
            sl["expr"] = after
            sl["raw"] = None
        return {"gen": str(after)}

    def op_rename_after(self, st):
        """a bookkeeping step of the container (canonical basis, symbolic denominators,
        tensor renamed, ...), then a container derived from it (copy, arithmetic, Term-level
        result), then the renaming: checked against the state right after the bookkeeping step"""
        sl = self._slot(st)
        if sl is None:
            return {"skip": True}
        e = self.make_expr(sl, st.get("route", 0))
        pre = st["pre"]
        try:
            if pre == "diag_fock":
                e.diagonalize_fock()
            elif pre == "block_diag":
                e.block_diagonalize_fock()
            elif pre == "symbolic":
                e.use_symbolic_denominators()
            elif pre == "rename_tensor":
                e.rename_tensor("w", "W9")
            else:
                e.expand()
        except Exception as exc:  # noqa: BLE001
            # the bookkeeping step itself is not under test here (e.g. diagonalize_fock
            # raises TypeError for terms with an orbital energy denominator, DESIGN 8.3)
            if "injected at" in str(exc):
                raise
            self.probes["after_pre_raised"] = self.probes.get("after_pre_raised", 0) + 1
            return {"skip": True}
        base = e.sympy
        tg = e.provided_target_idx
        if tg is None:
            tg = self._einstein_targets(base.expand())
        if base == 0 or tg is None or set(tg) != set(sl["targets"]):
            # the bookkeeping step removed the expression / re-defined the target set: no
            # reference to compare with
            self.probes["after_skipped"] = self.probes.get("after_skipped", 0) + 1
            return {"skip": True}
        self.probes["after_" + pre] = self.probes.get("after_" + pre, 0) + 1
        if base != sl["expr"]:
            self.probes["after_changed_expr"] = self.probes.get("after_changed_expr", 0) + 1
        derive = st["derive"]
        if derive == "copy":
            d = e.copy()
        elif derive == "mul":
            d, base = e * 3, (3 * base)
        elif derive == "add":
            d, base = e + e, (2 * base)
        elif derive == "term":
            from adcgen import Expr
            d = None
            for t in e.terms:
                x = t.substitute_contracted()
                d = x if d is None else d + x
            if not isinstance(d, Expr):
                d = Expr(d.sympy, **d.assumptions)
        else:
            d = e
        base = base.expand()
        snap = {"expr": base, "targets": tuple(tg), "fp": None}
        before_names = {k: set(v) for k, v in self.model.known.items()}
        what = f"{pre}, {derive}, then " + ("substitute_contracted" if st["how"] == "sc"
                                            else "substitute_with_generic")
        if st["how"] == "sc":
            after = d.substitute_contracted().sympy
            self.check_targets_untouched(base, after, snap["targets"], what)
            self.check_lowest(after, snap["targets"], what)
        else:
            after = d.substitute_with_generic().sympy
            self.check_targets_untouched(base, after, snap["targets"], what)
            for s_ in after.atoms(self.Index):
                if s_ in snap["targets"]:
                    continue
                if s_.name in before_names[self.key_of(s_)]:
                    self.viol("rename", "e-fresh", f"{what}: contracted index {s_} of the "
                              f"result {after} carries a name that had been handed out before")
                    break
        self._compare_value(snap, after, what)
        return {"after": str(after)}

    def op_rename_copy(self, st):
        from adcgen import Expr
        sl = self._slot(st)
        if sl is None:
            return {"skip": True}
        orig = self.make_expr(sl, st.get("route", 0))
        before_sympy, before_targets = orig.sympy, orig.provided_target_idx
        cp = orig.copy()
        if st["how"] == "sc":
            cp.substitute_contracted()
        else:
            cp.substitute_with_generic()
        if orig.sympy != before_sympy or orig.provided_target_idx != before_targets or \
                orig.provided_target_idx != cp.provided_target_idx:
            self.viol("rename", "c-alias", "renaming a copy changed the original expression")
        self._compare_value(sl, cp.sympy, "copy+" + st["how"])
        return {"copy": str(cp.sympy)}

    def op_rename_permute(self, st):
        from adcgen import Expr
        sl = self._slot(st)
        if sl is None:
            return {"skip": True}
        idx = self.canon_indices(sl["expr"])
        byk = {}
        for s in idx:
            byk.setdefault(self.key_of(s), []).append(s)
        classes = [v for _, v in sorted(byk.items()) if len(v) >= 2]
        if not classes:
            return {"skip": True}
        perms = []
        from adcgen.indices import get_symbols
        for n, (a, b) in enumerate(st["perms"]):
            cl = list(classes[a % len(classes)])
            if (a // 7) % 4 == 0:
                # an index of the same class that does not occur in the expression (yet):
                # a later transposition may act on what an earlier one brought in
                key = self.key_of(cl[0])
                letters = LETTERS[key[0]]
                extra = get_symbols([letters[(a // 28) % len(letters)] + str(1 + a % 2)],
                                    key[1] or None)[0]
                if extra not in cl:
                    cl.append(extra)
            p = cl[b % len(cl)]
            q = cl[(b // len(cl) + 1 + b) % len(cl)]
            if p is q:
                q = cl[(cl.index(p) + 1) % len(cl)]
            if perms and (b // 3) % 3 == 0 and \
                    self.key_of(perms[-1][1]) == self.key_of(cl[0]):
                # chain onto the previous transposition (same space and spin only: a
                # transposition across spaces can annihilate a delta irreversibly, so the
                # step-by-step result is not defined by the composed permutation)
                p = perms[-1][1]
                if p is q:
                    q = cl[(cl.index(p) + 1) % len(cl)] if p in cl else cl[0]
            perms.append((p, q))
        perms = self._repeat_perms(perms, st)
        e = self.make_expr(sl, st.get("route", 0))
        got = e.permute(*self._perm_form(perms, st)).sympy
        want = sl["expr"]
        for p, q in perms:
            want = want.xreplace({p: q, q: p})
        if len(perms) >= 2 and len({x for pq in perms for x in pq}) < 2 * len(perms):
            self.probes["permute_noncommuting"] += 1
        if got != want and not self.same_value_all_indices(got, want):
            self.viol("rename", "b-permute", f"permute{[(str(p), str(q)) for p, q in perms]} "
                      f"of {sl['expr']} gave {got}, sequential transpositions give {want}")
        return {"permute": str(got)}

    def _repeat_perms(self, perms, st):
        """the same transposition a second time, with others in between"""
        if st.get("rep") and len(perms) >= 2:
            perms = perms + [perms[0]]
            self.probes["permute_repeated"] = self.probes.get("permute_repeated", 0) + 1
        return perms

    def _perm_form(self, perms, st):
        """the ways a caller can write the same sequence of transpositions: plain pairs,
        Permutation objects, a PermutationProduct (which may only move commuting parts)"""
        form = st.get("pform", 0)
        if not form:
            return perms
        try:
            from adcgen.symmetry import Permutation, PermutationProduct
        except ImportError:
            return perms
        objs = [Permutation(p, q) for p, q in perms]
        if form == 1:
            return objs
        self.probes["permute_product"] = self.probes.get("permute_product", 0) + 1
        return list(PermutationProduct(objs))

    def make_expr(self, sl, route=0):
        """wrap the slot's expression in an Expr container through one of several
        equivalent construction routes (C08: 'all terms and target sets' must not depend on
        how the container came about)"""
        from adcgen import Expr
        expr, targets = sl["expr"], list(sl["targets"])
        nospin = not any(self.key_of(t)[1] for t in targets)
        route = route % 7
        if sl.get("raw") is not None and route in (0, 2, 4, 6):
            # the unexpanded (factored) form of the same expression
            if route == 6 and self._einstein_targets(expr) != set(targets):
                return Expr(sl["raw"], target_idx=targets)
            expr = sl["raw"]
            if route == 6:
                self.probes["einstein_route"] = self.probes.get("einstein_route", 0) + 1
                return Expr(expr)
        if route == 1 and nospin:
            return Expr(expr, target_idx=[t.name for t in targets])
        if route == 2:
            e = Expr(expr)
            e.set_target_idx(targets)
            return e
        if route == 3 and expr.is_Add:
            e = Expr(expr.args[0], target_idx=targets)
            for a in expr.args[1:]:
                e += Expr(a, target_idx=targets)
            return e
        if route == 4:
            return Expr(expr, target_idx=targets).copy()
        if route == 5 and nospin and targets:
            return Expr(expr, target_idx="".join(t.name for t in targets))
        if route == 6:
            # Einstein convention - only when it determines the same target set
            if self._einstein_targets(expr) == set(targets):
                self.probes["einstein_route"] = self.probes.get("einstein_route", 0) + 1
                return Expr(expr)
        return Expr(expr, target_idx=targets)

    def _einstein_targets(self, expr):
        """targets by index counting (independent of the library): indices that occur exactly
        once in every term; None if the terms disagree or a denominator is involved"""
        from sympy import Pow, Mul
        res = None
        for term in (expr.args if expr.is_Add else (expr,)):
            cnt = {}
            for a in (term.args if isinstance(term, Mul) else (term,)):
                mult = 1
                if isinstance(a, Pow):
                    # X_kl**2 is X_kl X_kl; orbital-energy brackets are not countable
                    a, ex = a.args
                    if not ex.is_Integer or not hasattr(a, "idx"):
                        return None
                    mult = abs(int(ex))
                if a.is_Number:
                    continue
                if type(a).__name__ == "NO":
                    ops = a.args[0].args if isinstance(a.args[0], Mul) else (a.args[0],)
                    idx_ = [o.args[0] for o in ops]
                elif type(a).__name__ in ("CreateFermion", "AnnihilateFermion"):
                    idx_ = [a.args[0]]
                elif hasattr(a, "idx"):
                    idx_ = a.idx
                else:
                    return None
                for s_ in idx_:
                    cnt[s_] = cnt.get(s_, 0) + mult
            once = {s_ for s_, n in cnt.items() if n == 1}
            if any(n > 2 for n in cnt.values()):
                return None
            if res is None:
                res = once
            elif res != once:
                return None
        return res

    def _container(self, sl):
        """long-lived Expr container + Term objects of a slot (S9: positional views with
        their own caches); rebuilt only when the slot's expression changes"""
        from adcgen import Expr
        if sl.get("cont_of") is not sl["expr"]:
            sl["cont"] = Expr(sl["expr"], target_idx=list(sl["targets"]))
            sl["terms"] = sl["cont"].terms
            sl["cont_of"] = sl["expr"]
        return sl["cont"], sl["terms"]

    def op_rename_term(self, st):
        """Term-level renamings on long-lived Term objects; results handed out earlier may be
        modified in place by the caller without affecting later requests"""
        sl = self._slot(st)
        if sl is None:
            return {"skip": True}
        cont, terms = self._container(sl)
        if cont.sympy != sl["expr"]:
            self.viol("rename", "c-alias", "a long-lived Expr container changed although "
                      "only Term-level (non in-place) operations were applied to it")
            return {}
        t = terms[st["pick"] % len(terms)]
        tsym = t.sympy
        idx = self.canon_indices(tsym)
        byk = {}
        for s_ in idx:
            byk.setdefault(self.key_of(s_), []).append(s_)
        classes = [v for _, v in sorted(byk.items()) if len(v) >= 2]
        out = {}
        how = st["how"]
        if how == "permute" and classes:
            perms = []
            for a, b in st["perms"]:
                cl = classes[a % len(classes)]
                p = cl[b % len(cl)]
                q = cl[(b // len(cl) + 1 + b) % len(cl)]
                if p is q:
                    q = cl[(cl.index(p) + 1) % len(cl)]
                perms.append((p, q))
            perms = self._repeat_perms(perms, st)
            want = tsym
            for p, q in perms:
                want = want.xreplace({p: q, q: p})
            for attempt in range(2 + st["pick"] % 2):
                got = t.permute(*self._perm_form(perms, st))
                gs_ = got.sympy
                if gs_ != want and not self.same_value_all_indices(gs_, want):
                    self.viol("rename", "b-permute", f"Term.permute"
                              f"{[(str(p), str(q)) for p, q in perms]} of {tsym} "
                              f"(request #{attempt + 1} on the same Term object) gave {gs_}, "
                              f"sequential transpositions give {want}")
                    break
                # the caller keeps working with the returned expression (in place)
                mut = (st["pick"] // 3 + attempt) % 3
                if mut == 0:
                    got.permute(perms[0])
                elif mut == 1 and hasattr(got, "substitute_contracted"):
                    got.substitute_contracted()
                elif hasattr(got, "expand"):
                    got *= 2
            out["permute"] = str(want)
            # the same on one object of the term (Obj is a Container as well)
            objs = t.objects
            o = objs[st["pick"] % len(objs)]
            osym = o.sympy
            owant = osym
            for p, q in perms:
                owant = owant.xreplace({p: q, q: p})
            og = o.permute(*perms).sympy
            if og != owant and not self.same_value_all_indices(og, owant):
                self.viol("rename", "b-permute", f"Obj.permute"
                          f"{[(str(p), str(q)) for p, q in perms]} of {osym} gave {og}, "
                          f"sequential transpositions give {owant}")
            if o.sympy != osym:
                self.viol("rename", "c-alias", f"Obj.permute changed the object {osym}")
        elif how in ("sc", "gen"):
            first = None
            for attempt in range(2):
                r = t.substitute_contracted() if how == "sc" else \
                    t.substitute_with_generic(return_sympy=False)
                rs = r.sympy
                single = {"expr": tsym, "targets": sl["targets"], "fp": None}
                self.check_targets_untouched(tsym, rs, sl["targets"], f"Term.{how}")
                if how == "sc":
                    self.check_lowest(rs, sl["targets"], "Term.substitute_contracted")
                    if first is not None and rs != first:
                        self.viol("rename", "c-alias", f"Term.substitute_contracted of {tsym} "
                                  f"gave {first} and then {rs} on the same Term object")
                    first = rs
                self._compare_value(single, rs, f"Term.{how} (request #{attempt + 1})")
                r *= 3  # in-place use of the result by the caller
                if hasattr(r, "substitute_with_generic"):
                    r.substitute_with_generic()
            out[how] = str(first)
        if t.sympy != tsym or cont.sympy != sl["expr"]:
            self.viol("rename", "c-alias", f"Term-level {how} changed the term / the container "
                      f"it belongs to: {tsym} -> {t.sympy}")
        return out

    def _resolve_map(self, m, sl):
        idx = self.canon_indices(sl["expr"])
        if not idx:
            return None
        byk = {}
        for s in idx:
            byk.setdefault(self.key_of(s), []).append(s)
        picks = list(m["picks"])
        # extra indices of the same class (not in the expression) as possible images
        from adcgen.indices import get_symbols

        def cls_for(i):
            keys = sorted(byk)
            return keys[picks[i] % len(keys)]

        def extra(key, j):
            pool = LETTERS[key[0]]
            nm = pool[picks[j] % len(pool)]
            if picks[j] % 3 == 0:
                nm += str(1 + picks[j] % 2)
            return get_symbols([nm], key[1] if key[1] else None)[0]
        shape, n = m["shape"], m["n"]
        key = cls_for(0)
        members = byk[key]
        rot = picks[1] % len(members)
        members = members[rot:] + members[:rot]
        pairs = []
        if shape == "identity":
            pairs = [(s, s) for s in members[:n]]
            if len(members) > 1:
                pairs.append((members[0], members[0]))
        elif shape == "injective":
            pairs = [(s, extra(key, 2 + i)) for i, s in enumerate(members[:n])]
        elif shape in ("chain", "long_chain"):
            ln = n if shape == "chain" else n + 2
            seq = members[:ln]
            seq = seq + [extra(key, 2)]
            pairs = [(seq[i], seq[i + 1]) for i in range(len(seq) - 1)]
        elif shape == "cycle":
            seq = members[:max(2, n)]
            if len(seq) < 2:
                seq = seq + [extra(key, 2)]
            pairs = [(seq[i], seq[(i + 1) % len(seq)]) for i in range(len(seq))]
        elif shape == "two_cycles":
            seq = members[:4]
            if len(seq) >= 4:
                pairs = [(seq[0], seq[1]), (seq[1], seq[0]), (seq[2], seq[3]),
                         (seq[3], seq[2])]
            else:
                seq = seq + [extra(key, 2)]
                pairs = [(seq[i], seq[(i + 1) % len(seq)]) for i in range(len(seq))]
            key2 = cls_for(5)
            if key2 != key and len(byk[key2]) >= 2:
                a, b = byk[key2][:2]
                pairs += [(a, b), (b, a)]
        elif shape == "mixed":
            seq = members[:3]
            if len(seq) >= 2:
                pairs = [(seq[0], seq[1]), (seq[1], seq[0])]
            for i, s in enumerate(members[3:3 + n]):
                pairs.append((s, extra(key, 4 + i)))
            if len(members) > 2:
                pairs.append((members[2], seq[0]))
        elif shape == "many2one":
            tgt = members[0] if picks[3] % 2 else extra(key, 2)
            pairs = [(s, tgt) for s in members[1:1 + n]]
        elif shape == "cross":
            key2 = cls_for(5)
            other = byk[key2]
            pairs = [(members[0], other[picks[6] % len(other)])]
            if len(members) > 1:
                pairs.append((members[1], members[0]))
        # dict semantics: one image per key; order of insertion decided by picks
        seen, out = set(), []
        for o, nw in pairs:
            if o in seen:
                continue
            seen.add(o)
            out.append((o, nw))
        if picks[7] % 2:
            out.reverse()
        if picks[8] % 3 == 0 and len(out) > 2:
            out = out[1:] + out[:1]
        return out

    def op_rename_subs(self, st):
        from adcgen.indices import order_substitutions
        sl = self._slot(st)
        if sl is None:
            return {"skip": True}
        if "pairs" in st:
            pairs = [(self.sym(o), self.sym(n)) for o, n in st["pairs"]]
        else:
            pairs = self._resolve_map(st["map"], sl)
        if not pairs:
            return {"skip": True}
        m = dict(pairs)
        dom, img = set(m), set(m.values())
        moved = {o for o, n in m.items() if o is not n}
        if any(o is n for o, n in m.items()):
            self.probes["identity_entry"] += 1
        # classify the shape that was actually built
        cyc = 0
        for o in moved:
            x, ln = m[o], 1
            while x in m and x is not o and ln < 20:
                x = m[x]
                ln += 1
            if x is o:
                cyc = max(cyc, ln)
        if cyc >= 2:
            self.probes["cycle_map"] += 1
        if cyc >= 3:
            self.probes["three_cycle"] += 1
        if any((m[o] in moved) for o in moved) and cyc == 0:
            self.probes["chain_map"] += 1
        if len(img) < len(dom):
            self.probes["many2one_map"] += 1
        try:
            want = sl["expr"].xreplace({o: n for o, n in m.items()})
        except AttributeError:
            # a many-to-one map that puts the same operator twice into a normal-ordered
            # string: sympy itself cannot build the result of the simultaneous substitution
            self.probes["map_merges_operators"] = self.probes.get("map_merges_operators", 0) + 1
            return {"skip": True}
        ordered = order_substitutions(dict(pairs))
        got = sl["expr"].subs(ordered)
        if got != want and self.same_value_all_indices(got, want):
            pass
        elif got != want:
            self.viol("rename", "a-simultaneous",
                      f"subs(order_substitutions({[(str(o), str(n)) for o, n in pairs]})) of "
                      f"{sl['expr']} gave {got}; simultaneous substitution gives {want}")
        else:
            injective = len(img) == len(dom) and not (img - dom) & \
                sl["expr"].atoms(self.Index)
            if injective and all(self.key_of(o) == self.key_of(n) for o, n in m.items()) \
                    and not (set(sl["targets"]) & (dom | img)):
                self._compare_value(sl, got, "injective map on contracted indices")
        return {"subs": str(got), "ordered": [(str(o), str(n)) for o, n in ordered]}

    def op_rename_minimize(self, st):
        from adcgen.indices import minimize_tensor_indices
        sl = self._slot(st)
        if sl is None:
            return {"skip": True}
        from adcgen.sympy_objects import SymbolicTensor
        tensors = sorted(sl["expr"].atoms(SymbolicTensor), key=str)
        if not tensors:
            return {"skip": True}
        t = tensors[st["pick"] % len(tensors)]
        tidx = tuple(t.idx)
        tnames = {}
        for tg in sl["targets"]:
            tnames.setdefault(self.key_of(tg), []).append(tg.name)
        new_idx, perms = minimize_tensor_indices(tidx, tnames)
        # oracle 1: returned permutations applied one after another give the result
        cur = list(tidx)
        for p, q in perms:
            sw = {p: q, q: p}
            cur = [sw.get(s, s) for s in cur]
        if tuple(cur) != tuple(new_idx):
            self.viol("rename", "b-minimize", f"minimize_tensor_indices({tidx}): reported "
                      f"permutations {perms} do not produce the returned indices {new_idx}")
        # oracle 2: targets keep their slots, nothing merges, names are the lowest
        for a, b in zip(tidx, new_idx):
            if a.name in tnames.get(self.key_of(a), []) and a is not b:
                self.viol("rename", "c-target", f"minimize_tensor_indices moved target {a}")
        if len(set(new_idx)) != len(set(tidx)):
            self.viol("rename", "c-merge", f"minimize_tensor_indices({tidx}) -> {new_idx}")
        per = {}
        for s in new_idx:
            if s.name in tnames.get(self.key_of(s), []):
                continue
            per.setdefault(self.key_of(s), set()).add(s.name)
        for key, names in per.items():
            want = set(self.lowest_names(key[0], len(names), set(tnames.get(key, []))))
            if names != want:
                self.viol("rename", "d-lowest", f"minimize_tensor_indices({tidx}, {tnames}) "
                          f"-> {new_idx}: {key} names {sorted(names)} != {sorted(want)}")
        if tuple(new_idx) != tidx:
            self.probes["minimize_changed"] += 1
        return {"min": [str(s) for s in new_idx]}

    def op_reg_get(self, st):
        from adcgen.indices import get_symbols
        names, spins = st["names"], st["spins"]
        try:
            for n, s in zip(names, spins):
                if n in self.ind._generic_indices[_space(n)][s]:
                    self.probes["pooled_explicit_first"] += 1
        except Exception:  # noqa: BLE001 - white-box probe only
            pass
        if st["via"] == "get_symbols":
            sp_arg = None if not any(spins) else "".join(spins) if all(spins) else None
            if any(spins) and not all(spins):
                # spins given as a list with empty strings (indices with and without spin in
                # one request, as the get_indices docstring allows)
                ret = get_symbols(list(names), list(spins))
                if [s.name for s in ret] != list(names) or \
                        [self.key_of(s)[1] for s in ret] != list(spins):
                    self.viol("registry", "R3", f"get_symbols({names}, {spins}) returned "
                              f"{ret}")
                return {"n": len(ret)}
            ret = get_symbols(list(names), sp_arg)
            if [s.name for s in ret] != list(names):
                self.viol("registry", "R3", f"get_symbols({names}) returned {ret}")
            # clause (f) across the two public entry points
            again = self.ind.get_indices(list(names), list(spins))
            flat = {(s_.name,) + self.key_of(s_): s_ for v in again.values() for s_ in v}
            for s_ in ret:
                other = flat.get((s_.name,) + self.key_of(s_))
                if other is not None and other is not s_:
                    self.viol("registry", "R2", f"get_symbols({names}) and get_indices "
                              f"returned different objects for {s_}")
                    break
            return {"n": len(ret)}
        if st["via"] == "get_indices_str" and (all(spins) or not any(spins)):
            ret = self.ind.get_indices("".join(names),
                                       "".join(spins) if all(spins) else None)
        else:
            ret = self.ind.get_indices(list(names), list(spins))
        return {"n": sum(len(v) for v in ret.values())}

    def op_reg_space(self, st):
        """helpers that translate excitation-space strings into generic indices, and
        get_symbols called with Index objects"""
        from adcgen.indices import (generic_indices_from_space, n_ov_from_space, get_symbols,
                                    repeated_indices)
        space = st["space"]
        want = {"occ": space.count("h"), "virt": space.count("p")}
        if n_ov_from_space(space) != want:
            self.viol("registry", "R3", f"n_ov_from_space({space!r}) = "
                      f"{n_ov_from_space(space)}")
        idx = generic_indices_from_space(space) if space else []
        keys = [self.key_of(s_)[0] for s_ in idx]
        if keys != ["occ"] * want["occ"] + ["virt"] * want["virt"] or \
                len(set(idx)) != len(idx):
            self.viol("registry", "R3", f"generic_indices_from_space({space!r}) returned "
                      f"{idx} (documented: occupied before virtual, one index per letter)")
        # Index objects go through get_symbols untouched
        if idx:
            back = get_symbols(list(idx))
            if len(back) != len(idx) or any(a is not b for a, b in zip(back, idx)):
                self.viol("registry", "R2", f"get_symbols({idx}) returned {back}")
            one = get_symbols(idx[0])
            if len(one) != 1 or one[0] is not idx[0]:
                self.viol("registry", "R2", f"get_symbols({idx[0]}) returned {one}")
            names = "".join(s_.name for s_ in idx)
            again = get_symbols(names)
            if any(a is not b for a, b in zip(again, idx)):
                self.viol("registry", "R2", f"get_symbols({names!r}) did not return the "
                          f"generic objects just handed out: {again} vs {idx}")
            if not repeated_indices(names, idx[-1].name) or \
                    repeated_indices(names, "x" + idx[-1].name[1:] + "9"):
                pass  # repeated_indices is a pure string helper; exercised for exceptions only
        return {"n": len(idx)}

    def op_reg_generic(self, st):
        ret = self.ind.get_generic_indices(**st["kw"])
        return {"names": {f"{k[0]}_{k[1]}": [s.name for s in v]
                          for k, v in sorted(ret.items())}}

    def op_reg_bad(self, st):
        v, pick = st["variant"], st["pick"]
        before = {k: dict(d) for k, d in self.model.known.items()}
        try:
            if v == "len_mismatch":
                self.ind.get_indices(["i", "j", "a"][:1 + pick % 3], ["a"] * (2 + pick % 3 + 1))
            elif v == "bad_letter":
                self.ind.get_indices(["x" + str(pick % 4)])
            elif v == "bad_letter_late":
                self.ind.get_indices(["k" + str(3 + pick % 3), "z", "c" + str(3 + pick % 3)])
            elif v == "bad_letter_late_plain":
                self.ind.get_indices([["n", "o"], ["h", "g1"], ["o2", "w"]][pick % 3] + ["?"])
            elif v == "bad_key":
                self.ind.get_generic_indices(occ_a_b=1 + pick % 2)
            elif v == "bad_spin":
                self.ind.get_indices(["i"], ["x"])
            elif v == "bad_generic_space":
                self.ind.get_generic_indices(core=1)
        except Exception as exc:  # rejected, as documented
            # R5: nothing but validly processed names (left of the bad one) may appear
            allowed = set()
            if v == "bad_letter_late":
                allowed = {"k" + str(3 + pick % 3)}
            if v == "bad_letter_late_plain":
                allowed = set([["n", "o"], ["h", "g1"], ["o2", "w"]][pick % 3])
            for k, d in self.model.known.items():
                new = set(d) - set(before[k])
                if new - allowed:
                    self.viol("registry", "R5", f"rejected request {v} registered {new}")
            return {"rejected": type(exc).__name__}
        self.viol("registry", "R5", f"malformed request '{v}' was accepted")
        return {"accepted": True}

    def op_lib(self, st):
        which, pick = st["which"], st["pick"]
        op, gs = self.objs()
        if which == "psi":
            order, bk = 1 + pick % 2, ["bra", "ket"][(pick // 2) % 2]
            psi = gs.psi(order, bk)
            self._record_fresh(psi, self.psis, f"psi({order},{bk})")
            return {"psi": str(psi)}
        if which == "norm_factor":
            nf = gs.norm_factor(2)
            self._record_fresh(nf, self.norms, "norm_factor(2)")
            return {"norm": str(nf)}
        if which == "h1":
            h, _ = op.h1
            return {"h1": str(h)}
        if which == "operator":
            o, _ = op.operator(1 + pick % 2, 1 + (pick // 2) % 2)
            return {"operator": str(o)}
        if which == "energy":
            e = gs.energy(pick % 3)
            return {"energy": str(e)}
        if which == "amplitude":
            names = [("ijab", "pphh"), ("klcd", "pphh"), ("ia", "ph"), ("jb", "ph")][pick % 4]
            if self.params.get("variant") == "re":  # RE doubles residuals cost seconds
                names = [("ia", "ph"), ("jb", "ph")][pick % 2]
            a = gs.amplitude(1, names[1], names[0])
            return {"amplitude": str(a)[:200]}
        if which == "expand_itmd":
            from adcgen import Intermediates
            cand = [("t2_1", "ijab"), ("t2_1", "klcd"), ("t1_2", "ia"), ("t1_2", "jb"),
                    ("t1_2", "kc"), ("t2_2", "ijab"), ("t2_2", "klcd"), ("p0_2_oo", "ij"),
                    ("p0_2_vv", "ab"), ("t2_1", "i1j1a1b1"), ("p0_2_oo", "kl")]
            name, idx = cand[pick % len(cand)]
            itmd = Intermediates().available[name]
            before_names = {k: set(v) for k, v in self.model.known.items()}
            from adcgen.indices import get_symbols
            tg = get_symbols(idx)
            full = bool(pick % 2)
            ex = itmd.expand_itmd(idx, fully_expand=full)
            sy = ex.sympy
            f = self.fp(sy, tuple(tg))
            if f is not None:
                first = self.itmd_fp.setdefault((name, full), (idx, f))
                if first[1] != f:
                    self.viol("rename", "c-value", f"{name}.expand_itmd({idx}) has a different "
                              f"value (as a function of its targets) than "
                              f"{name}.expand_itmd({first[0]}): {sy}")
            for s in sy.atoms(self.Index):
                if s in tg:
                    continue
                if s.name in before_names[self.key_of(s)]:
                    self.viol("rename", "e-fresh", f"{name}.expand_itmd({idx}): contracted "
                              f"index {s} had been handed out before")
                    break
            return {"itmd": str(sy)[:300]}
        if which == "import":
            from adcgen import import_from_sympy_latex
            texts = [
                "{V^{i_{\\alpha}j_{\\beta}}_{a_{\\alpha}b_{\\beta}}} {t1^{a_{\\alpha}b_{\\beta}}_{i_{\\alpha}j_{\\beta}}}",
                "{f^{i_{\\alpha}}_{k3_{\\alpha}}} {X^{a}_{k3_{\\alpha}}} + {f^{i}_{k3}} {X^{a_{\\beta}}_{k3}}",
                "{V^{ij}_{ab}} {t1^{ab}_{ij}}",
                "\\frac{{V^{k3l3}_{c3d3}} {t1^{c3d3}_{k3l3}}}{4}",
                "{f^{i}_{a}} {t2^{a}_{i}} + {V^{jk4}_{ab}} {t1^{ab}_{jk4}}",
                "{d^{p}_{q}} \\delta_{p q}",
                "{V^{i5a}_{b5j}} {X^{b5}_{i5}}",
            ]
            e = import_from_sympy_latex(texts[pick % len(texts)])
            out = {"import": str(e.sympy)}
            # print -> import of a live expression must hand back the very same index objects
            sl = self._slot({"slot": pick})
            if sl is not None:
                from adcgen import Expr
                try:
                    back = import_from_sympy_latex(str(Expr(sl["expr"]))).sympy
                except Exception:  # noqa: BLE001 - the round trip itself is property C18
                    back = None
                if back is not None:
                    orig = {(s_.name,) + self.key_of(s_): s_ for s_ in
                            sl["expr"].atoms(self.Index)}
                    for s_ in back.atoms(self.Index):
                        o = orig.get((s_.name,) + self.key_of(s_))
                        if o is not None and o is not s_:
                            self.viol("registry", "R2", f"importing the printed expression "
                                      f"{sl['expr']} returned a different object for index {s_}")
                            break
                    self.probes["roundtrip_identity"] = \
                        self.probes.get("roundtrip_identity", 0) + 1
            return out
        return {"skip": True}

    def _record_fresh(self, obj, bag, what):
        idx = set(obj.atoms(self.Index)) if hasattr(obj, "atoms") else set()
        for other_what, other in bag:
            self.probes["psi_pairs"] += 1
            shared = idx & other
            if shared:
                self.viol("registry", "e-shared", f"{what} shares contracted indices "
                          f"{sorted(map(str, shared))} with an earlier {other_what}")
                break
        bag.append((what, idx))

    def op_sympy_clear_cache(self, st):
        from sympy.core.cache import clear_cache
        clear_cache()
        return {}

    def op_dummy_skew(self, st):
        from sympy import Dummy
        Dummy._count += st["n"]
        return {}

    def op_clock_jump(self, st):
        self.seams["clock"].jump(st["dt"])
        return {}

    # ---------------------------------------------------------------- run
    def run(self, steps):
        from . import runtime
        for i, st in enumerate(steps):
            self.cur_step = i
            self.counts[st["op"]] = self.counts.get(st["op"], 0) + 1
            ev = {"i": i, "op": st["op"]}
            ab = st.get("abort")
            try:
                if ab and not self.params.get("no_faults"):
                    if self.injector is None:
                        self.injector = runtime.Injector()
                    mode = self.params.get("abort_mode", "state")
                    n = runtime.count_in_twin(self.injector, mode, lambda: self.do_step(st))
                    self.abort_n.append(n)
                    if n <= 0:
                        self.fault_missed += 1
                        ev["out"] = self.do_step(st)
                    else:
                        k = 1 + int(ab["u"] * n) if "k" not in ab else ab["k"]
                        k = min(max(k, 1), n)
                        exc = KeyboardInterrupt if ab["kind"] == "kbi" else MemoryError
                        nv = len(self.violations)
                        fired, res, err = self.injector.run(
                            mode, lambda: self.do_step(st), k, exc)
                        if fired is None:
                            self.fault_missed += 1
                            if err is not None:
                                raise err
                            ev["out"] = res
                        else:
                            # the aborted operation has no result to check: drop what the
                            # half-finished operation reported, keep registry violations
                            self.violations[nv:] = [
                                v for v in self.violations[nv:] if v["class"] == "registry"
                                and v["rule"] in ("R1", "R2")]
                            fired["kind"] = ab["kind"]
                            fired["n"] = n
                            self.fault_fired.append(fired)
                            if fired["file"] == "indices.py":
                                self.probes["abort_in_registry"] += 1
                            ev["abort"] = {k2: fired[k2] for k2 in
                                           ("file", "line", "func", "event", "kind")}
                            if not isinstance(err, exc):
                                ev["abort"]["swallowed_as"] = type(err).__name__
                            self.model._after_failure("abort", exc(), None)
                else:
                    ev["out"] = self.do_step(st)
            except self.Inputerror as exc:
                ev["err"] = "Inputerror"
                if st["op"] not in ("reg.bad",):
                    ev["msg"] = str(exc)[:200]
                    self.viol("unexpected", "exception", f"{st['op']} raised Inputerror: {exc}")
            except Exception as exc:  # noqa: BLE001
                import traceback
                ev["err"] = type(exc).__name__
                ev["msg"] = str(exc)[:300]
                self.viol("unexpected", "exception",
                          f"{st['op']} raised {type(exc).__name__}: {str(exc)[:300]} | "
                          + traceback.format_exc()[-600:])
            lat = self.model.pool_hygiene()
            if lat:
                ev["latent"] = lat
            ev["reg"] = digest(self.model.state_digest_tuple(), 6)
            self.events.append(ev)
        self.epilogue()

    def epilogue(self):
        """forced consequence check (DESIGN §4.1 R4): a generic request on every pool
        touched during the run and a pair of wavefunctions / norm factors"""
        self.cur_step = len(self.events)
        ev = {"i": self.cur_step, "op": "epilogue"}
        try:
            kw = {}
            for (sp, s), d in sorted(self.model.known.items()):
                if d:
                    kw[f"{sp}_{s}" if s else sp] = 3
            if kw:
                self.ind.get_generic_indices(**kw)
                self.ind.get_generic_indices(**kw)
            # plain requests without spin still mean "no spin"
            from adcgen.indices import get_symbols
            plain = get_symbols("ijkabcpq")
            if any(self.key_of(s_)[1] for s_ in plain):
                self.viol("registry", "R3", f"get_symbols('ijkabcpq') returned spin-labelled "
                          f"indices {plain}")
            op, gs = self.objs()
            for _ in range(2):
                self._record_fresh(gs.psi(1, "ket"), self.psis, "psi(1,ket)")
            self._record_fresh(gs.psi(2, "bra"), self.psis, "psi(2,bra)")
        except Exception as exc:  # noqa: BLE001
            ev["err"] = type(exc).__name__
            self.viol("unexpected", "exception", f"epilogue raised {type(exc).__name__}: "
                      f"{str(exc)[:300]}")
        ev["reg"] = digest(self.model.state_digest_tuple(), 6)
        self.events.append(ev)


def _space(name):
    for sp, letters in LETTERS.items():
        if name[0] in letters:
            return sp
    raise ValueError(name)


def execute(job):
    """run one C08 job inside the current process image"""
    from . import runtime
    t0 = runtime.REAL_PERF()
    if job.get("steps") is None:
        params, steps = generate(job["seed"], job["run"], job.get("tier", "quick"),
                                 job.get("overrides"))
    else:
        params, steps = job["params"], job["steps"]
    job = dict(job, params=params)
    sess = C08Session(job)
    sess.run(steps)
    clock = sess.seams["clock"]
    log = {"events": sess.events, "violations": [
        {k: v for k, v in x.items()} for x in sess.violations]}
    return {
        "kind": "c08", "seed": job.get("seed"), "run": job.get("run"),
        "params": params, "steps": steps, "n_steps": len(steps),
        "digest": digest(log),
        "events": sess.events if job.get("want_events") else None,
        "violations": sess.violations,
        "selfcheck": sess.selfcheck,
        "stats": {"model": sess.model.stats, "probes": sess.probes, "ops": sess.counts,
                  "faults_fired": sess.fault_fired, "faults_missed": sess.fault_missed,
                  "abort_n": sess.abort_n,
                  "latent_states": sum(1 for e in sess.events if "latent" in e),
                  "clock": {"calls": clock.calls, "lo": clock.lo, "hi": clock.hi,
                            "callers": sorted(clock.callers)},
                  "reg_states": sorted({e["reg"] for e in sess.events}),
                  "schedule_digest": digest(steps, 8)},
        "wall_s": runtime.REAL_PERF() - t0,
        "pid_image": {"hashseed": os.environ.get("PYTHONHASHSEED")},
    }
