"""Alpha-canonical normal form (DESIGN §4.3): structure of an expression modulo renaming
of contracted indices and the declared tensor symmetries.  Independent of adcgen (reads
only class names and ``args``); used as an oracle to compare a request with itself across
sessions, never to decide what adcgen should compute.

``normal_form(expr, targets, name_map)`` returns a digest, or ``None`` when the
canonicaliser gives up (more than MAX_TIED tied indices in a term, or an unknown atom).
"""
import hashlib
import itertools

MAX_TIED_PERMS = 5040


class GiveUp(Exception):
    pass


def _sp(i):
    a = i.assumptions0
    s = "o" if a.get("below_fermi") else "v" if a.get("above_fermi") else "g"
    return s + ("a" if a.get("alpha") else "b" if a.get("beta") else "")


def _h(x):
    return hashlib.blake2b(repr(x).encode(), digest_size=8).hexdigest()


# ------------------------------------------------------------------------- parsing
class Atom:
    """kind: 'T' tensor (anti/sym), 'N' nonsym, 'D' delta, 'S' symbol, 'O' operator,
    'NO' normal-ordered group, 'B' bracket (polynomial) ; exp: exponent"""
    __slots__ = ("kind", "head", "upper", "lower", "anti", "bks", "idx", "exp", "sub", "nc")

    def __init__(self, kind, head, **kw):
        self.kind, self.head = kind, head
        self.upper = kw.get("upper", ())
        self.lower = kw.get("lower", ())
        self.anti = kw.get("anti", False)
        self.bks = kw.get("bks", 0)
        self.idx = kw.get("idx", ())
        self.exp = kw.get("exp", "1")
        self.sub = kw.get("sub")
        self.nc = kw.get("nc", False)

    def indices(self):
        if self.kind == "T":
            return tuple(self.upper) + tuple(self.lower)
        if self.kind in ("N", "D", "O"):
            return tuple(self.idx)
        if self.kind in ("B", "NO"):
            out = []
            for _, atoms in self.sub:
                for a in atoms:
                    out.extend(a.indices())
            return tuple(out)
        return ()


def _parse_atom(a, name_map, Index):
    cls = type(a).__name__
    if cls == "Pow":
        base, ex = a.args
        if base.is_Number:
            return None  # numeric, handled as coefficient
        at = _parse_atom(base, name_map, Index)
        if at is None:
            raise GiveUp("pow of number")
        at.exp = str(ex) if at.exp == "1" else f"({at.exp})*{ex}"
        return at
    if cls in ("AntiSymmetricTensor", "Amplitude", "SymmetricTensor"):
        return Atom("T", (cls, name_map(a.args[0].name)), upper=tuple(a.args[1].args),
                    lower=tuple(a.args[2].args), anti=cls != "SymmetricTensor",
                    bks=int(a.args[3]))
    if cls == "NonSymmetricTensor":
        return Atom("N", (cls, name_map(a.args[0].name)), idx=tuple(a.args[1].args))
    if cls == "KroneckerDelta":
        return Atom("D", ("delta",), idx=tuple(a.args))
    if cls == "Symbol":
        return Atom("S", ("sym", name_map(a.name)))
    if cls in ("CreateFermion", "AnnihilateFermion"):
        return Atom("O", (cls,), idx=(a.args[0],), nc=True)
    if cls == "NO":
        return Atom("NO", ("NO",), sub=_parse_poly(a.args[0], name_map, Index), nc=True)
    if cls == "Add":
        return Atom("B", ("bracket",), sub=_parse_poly(a, name_map, Index))
    raise GiveUp(f"atom {cls}")


def _parse_term(t, name_map, Index):
    """-> (coefficient (sympy number), [atoms in order]) ; numeric powers stay in coeff"""
    from sympy import Mul, S
    args = t.args if isinstance(t, Mul) else (t,)
    coeff = S.One
    atoms = []
    for a in args:
        if a.is_Number:
            coeff *= a
            continue
        if type(a).__name__ == "Pow" and a.args[0].is_Number:
            coeff *= a
            continue
        atoms.append(_parse_atom(a, name_map, Index))
    return coeff, atoms


def _parse_poly(e, name_map, Index):
    terms = e.args if type(e).__name__ == "Add" else (e,)
    return [_parse_term(t, name_map, Index) for t in terms]


# ------------------------------------------------------------------------- rendering
def _sort_sign(labels):
    lst = list(labels)
    sign = 1
    for i in range(len(lst)):
        for j in range(len(lst) - 1 - i):
            if lst[j] > lst[j + 1]:
                lst[j], lst[j + 1] = lst[j + 1], lst[j]
                sign = -sign
    return tuple(lst), sign


def _render_atom(at, lab):
    """-> (string, sign) of the atom under index labelling ``lab`` (index -> str)"""
    if at.kind == "T":
        u = tuple(lab[i] for i in at.upper)
        lo = tuple(lab[i] for i in at.lower)
        sign = 1
        if at.anti:
            u, s1 = _sort_sign(u)
            lo, s2 = _sort_sign(lo)
            sign = s1 * s2
        else:
            u, lo = tuple(sorted(u)), tuple(sorted(lo))
        if at.bks != 0 and (lo, u) < (u, lo):
            u, lo = lo, u
            sign *= at.bks
        if at.bks == -1 and u == lo:
            return "0", 0
        s = f"{at.head[0]}:{at.head[1]}^{','.join(u)}_{','.join(lo)}|{at.bks}"
    elif at.kind == "N":
        s = f"N:{at.head[1]}_{','.join(lab[i] for i in at.idx)}"
        sign = 1
    elif at.kind == "D":
        s = "d_" + ",".join(sorted(lab[i] for i in at.idx))
        sign = 1
    elif at.kind == "S":
        s, sign = f"S:{at.head[1]}", 1
    elif at.kind == "O":
        s, sign = f"{at.head[0]}({lab[at.idx[0]]})", 1
    elif at.kind in ("B", "NO"):
        parts = []
        for c, atoms in at.sub:
            rs, sg = _render_product(atoms, lab, keep_order=(at.kind == "NO"))
            parts.append(f"{c * sg}*[{rs}]")
        if at.kind == "B":
            parts.sort()
        s, sign = at.kind + "{" + " + ".join(parts) + "}", 1
    else:
        raise GiveUp(at.kind)
    if at.exp != "1":
        s += f"**{at.exp}"
        try:
            if int(at.exp) % 2 == 0:
                sign = 1 if sign else 0
        except ValueError:
            pass
    return s, sign


def _render_product(atoms, lab, keep_order=False):
    comm, ncomm, sign = [], [], 1
    for at in atoms:
        s, sg = _render_atom(at, lab)
        sign *= sg
        (ncomm if (at.nc or keep_order) else comm).append(s)
    comm.sort()
    return " ".join(comm) + (" ; " + " ".join(ncomm) if ncomm else ""), sign


# ------------------------------------------------------------------------- canonical labels
def _refine(atoms, contracted, fixed):
    """Weisfeiler-Lehman style colours of the contracted indices"""
    colour = {i: _h(("c", _sp(i))) for i in contracted}
    colour.update({i: _h(("t", n)) for i, n in fixed.items()})

    def occurrences(at, path, out):
        if at.kind == "T":
            for slot, grp in (("u", at.upper), ("l", at.lower)):
                for pos, i in enumerate(grp):
                    key = slot if (at.anti or True) else (slot, pos)
                    if at.bks != 0:
                        key = "ul"  # upper / lower are exchangeable up to sign
                    out.append((i, (path, at.head, at.bks, at.exp, key), at))
        elif at.kind in ("N", "O"):
            for pos, i in enumerate(at.idx):
                out.append((i, (path, at.head, at.exp, pos), at))
        elif at.kind == "D":
            for i in at.idx:
                out.append((i, (path, at.head, at.exp), at))
        elif at.kind in ("B", "NO"):
            for c, sub in at.sub:
                for k, a in enumerate(sub):
                    occurrences(a, (path, at.kind, at.exp, str(abs(c)),
                                    k if at.kind == "NO" else None), out)

    occ = []
    for k, at in enumerate(atoms):
        occurrences(at, ("nc", k) if at.nc else (), occ)
    by_atom = {}
    for i, key, at in occ:
        by_atom.setdefault(id(at), []).append((i, key))
    for _ in range(4):
        new = {}
        for i in contracted:
            sig = []
            for j, key, at in occ:
                if j is not i:
                    continue
                mates = sorted((colour.get(m, "?"), repr(k2)) for m, k2 in by_atom[id(at)])
                sig.append((repr(key), tuple(mates)))
            sig.sort()
            new[i] = _h((colour[i], sig))
        changed = len(set(new.values())) != len({colour[i] for i in contracted})
        colour.update(new)
        if not changed:
            break
    return colour


def _canon_term(coeff, atoms, targets, Index):
    fixed = {}
    idx_all = []
    for at in atoms:
        for i in at.indices():
            if i not in idx_all:
                idx_all.append(i)
    for i in idx_all:
        if i in targets:
            fixed[i] = "T" + _sp(i) + ":" + i.name
    contracted = [i for i in idx_all if i not in fixed]
    colour = _refine(atoms, contracted, fixed)
    groups = {}
    for i in contracted:
        groups.setdefault((_sp(i), colour[i]), []).append(i)
    keys = sorted(groups)
    nperm = 1
    for k in keys:
        for f in range(2, len(groups[k]) + 1):
            nperm *= f
        if nperm > MAX_TIED_PERMS:
            raise GiveUp("too many tied indices")
    # label prefix per class so that labels of different spaces never compare equal
    best = None
    for choice in itertools.product(*[itertools.permutations(groups[k]) for k in keys]):
        lab = dict(fixed)
        counter = {}
        for k, perm in zip(keys, choice):
            for i in perm:
                n = counter.get(k[0], 0)
                counter[k[0]] = n + 1
                lab[i] = f"{k[0]}{n:02d}"
        s, sign = _render_product(atoms, lab)
        if best is None or s < best[0]:
            best = [s, {sign}]
        elif s == best[0]:
            best[1].add(sign)
    if best is None:
        s, sign = _render_product(atoms, dict(fixed))
        best = [s, {sign}]
    signs = best[1] - {0}
    if len(signs) != 1:
        # the term is mapped onto minus itself by a relabelling of contracted indices (or
        # contains a tensor that vanishes by its own symmetry): it is zero
        return "0", 0
    return best[0], coeff * signs.pop()


def normal_form(expr, targets, name_map=None, Index=None):
    from sympy import S
    name_map = name_map or (lambda n: n)
    targets = set(targets)
    try:
        poly = _parse_poly(expr, name_map, Index)
        acc = {}
        for coeff, atoms in poly:
            mono, c = _canon_term(coeff, atoms, targets, Index)
            acc[mono] = acc.get(mono, S.Zero) + c
        items = sorted((m, str(c)) for m, c in acc.items() if c != 0 and m != "0")
    except GiveUp:
        return None
    return hashlib.blake2b(repr(items).encode(), digest_size=10).hexdigest()
