"""Check driver: batches, classification, minimisation, replay files, evidence.

Exit codes: 0 held on everything explored (possibly with KNOWN-FINDING lines);
1 at least one ``VIOLATION property=<id> replay=<path>`` line; 2 harness error.
"""
import json
import os
import sys
import time

from . import host
from .seeds import derive, digest

VERIF = os.path.dirname(os.path.dirname(os.path.abspath(__file__)))
EVIDENCE_DIR = os.environ.get("VERIF_EVIDENCE_DIR", os.path.join(VERIF, "evidence"))
REPLAY_DIR = os.environ.get("VERIF_REPLAY_DIR", os.path.join(VERIF, "replays"))
KNOWN = os.path.join(VERIF, "known_findings.json")
DEFAULT_SEED = 20261004

REAL_STUB = {
    "real": ["all of adcgen (imported from /repo's working tree)", "all of sympy",
             "the CPython 3.12 interpreter (hash seed chosen per zygote)"],
    "stub": ["builtins.open for adcgen/tensor_names.json and adcgen/logger_config.json "
             "(served from memory, import time only)", "time.perf_counter (simulated clock)",
             "logging sink (NullHandler)"],
}


def log(*a):
    print(*a, flush=True)


# ------------------------------------------------------------------------- known findings
def load_known():
    try:
        with open(KNOWN) as f:
            return json.load(f).get("findings", [])
    except FileNotFoundError:
        return []


def match_known(known, prop, sig):
    """sig: dict with class and template/site; a 'fixed' entry suppresses nothing"""
    for k in known:
        if k.get("status") != "known" or k.get("property") != prop:
            continue
        if k.get("class") != sig.get("class"):
            continue
        if "template" in k and k["template"] != sig.get("template"):
            continue
        if "rule" in k and k["rule"] != sig.get("rule"):
            continue
        return k
    return None


# ------------------------------------------------------------------------- helpers
def sig_of(v):
    s = {"class": v.get("class")}
    if v.get("rule"):
        s["rule"] = v["rule"]
    if v.get("template"):
        s["template"] = v["template"]
    return s


def env_pool(seed, n, thorough=False):
    rng = derive(seed, "envpool")
    hashseeds = [0, 1, 4294967295] + [rng.randrange(2, 4294967295) for _ in range(max(0, n - 3))]
    pool = []
    for i, h in enumerate(hashseeds[:n]):
        cache = rng.choice([1000, 1000, 64, 8, "None"])
        use = "yes"
        if thorough and rng.random() < 0.05:
            use = "no"
        pool.append({"hashseed": h, "config": "default", "cache_size": cache,
                     "use_cache": use})
    pool[0] = dict(host.DEFAULT_ENV)
    return pool


def job_replay_record(prop, job, result, violation, original_len):
    return {
        "property": prop, "kind": job["kind"], "seed": job.get("seed"), "run": job.get("run"),
        "env": job.get("env") or dict(host.DEFAULT_ENV),
        "params": result.get("params", job.get("params")),
        "steps": result.get("steps", job.get("steps")),
        "ref": job.get("ref"),
        "expected": {"signature": sig_of(violation), "step": violation.get("step"),
                     "detail": violation.get("detail")},
        "original_steps": original_len,
        "timeout": job.get("timeout"),
        "repo_head": _repo_head(),
    }


def _repo_head():
    import subprocess
    try:
        return subprocess.run(["git", "-C", os.environ.get("VERIF_REPO", "/repo"), "rev-parse",
                               "--short", "HEAD"], capture_output=True, text=True,
                              timeout=10).stdout.strip()
    except Exception:  # noqa: BLE001
        return None


def explicit_job(job, result):
    """a job that replays ``result`` exactly: explicit params and steps"""
    j = {k: v for k, v in job.items() if k not in ("steps", "params")}
    j["params"] = result["params"]
    j["steps"] = result["steps"]
    return j


def has_sig(result, sig):
    for v in result.get("violations") or []:
        if sig_of(v) == sig:
            return v
    return None


def minimise(job, result, sig, budget_s=90, log_fn=None, shrink=None):
    """ddmin over the recorded schedule; every candidate is a fresh forked session"""
    t0 = time.time()
    base = explicit_job(job, result)
    steps = list(base["steps"])
    best = (steps, result)

    def test_many(cands):
        jobs = [dict(base, steps=c, want_events=False) for c in cands]
        res = host.run_jobs(jobs, workers=16, group_size=1)
        for c, r in zip(cands, res):
            if not r.get("harness_error") and not r.get("harness_timeout") and has_sig(r, sig):
                return c, r
        return None

    n = 2
    while len(steps) >= 2 and time.time() - t0 < budget_s:
        chunk = max(1, len(steps) // n)
        cands = []
        for s in range(0, len(steps), chunk):
            c = steps[:s] + steps[s + chunk:]
            if c:
                cands.append(c)
        hit = test_many(cands) if cands else None
        if hit:
            steps, res = hit
            best = (steps, res)
            n = max(n - 1, 2)
        else:
            if chunk == 1:
                break
            n = min(len(steps), n * 2)
    # drop fault annotations
    if time.time() - t0 < budget_s:
        cands = []
        for i, st in enumerate(steps):
            if "abort" in st:
                c = [dict(s) for s in steps]
                del c[i]["abort"]
                cands.append(c)
        hit = test_many(cands) if cands else None
        if hit:
            best = hit
            steps = hit[0]
    # argument-level simplification of the remaining steps (fewer terms / atoms / names /
    # transpositions), greedily while the same violation persists
    if shrink is not None:
        improved = True
        while improved and time.time() - t0 < budget_s:
            improved = False
            cands, where = [], []
            for i, st in enumerate(steps):
                for c in shrink(st)[:12]:
                    cands.append(steps[:i] + [c] + steps[i + 1:])
                    where.append(i)
            if not cands:
                break
            hit = test_many(cands[:96])
            if hit:
                steps = hit[0]
                best = hit
                improved = True
    # reset session parameters to defaults one by one
    final_steps, final_res = best
    params = dict(final_res["params"])
    for key, default in (("dummy_count", 0), ("heap_skew", 0), ("log_level", "ERROR"),
                         ("clock_step", 0.001), ("dummy_base", 5000000)):
        if time.time() - t0 > budget_s:
            break
        if params.get(key) == default:
            continue
        p2 = dict(params)
        p2[key] = default
        r = host.run_jobs([dict(base, params=p2, steps=final_steps)])[0]
        if not r.get("harness_error") and has_sig(r, sig):
            params = p2
            final_res = r
    # default environment?
    if base.get("env") and host.env_key(base["env"]) != host.env_key(None) and \
            time.time() - t0 < budget_s:
        r = host.run_jobs([dict(base, env=dict(host.DEFAULT_ENV), params=params,
                                steps=final_steps)])[0]
        if not r.get("harness_error") and has_sig(r, sig):
            base = dict(base, env=dict(host.DEFAULT_ENV))
            final_res = r
    out_job = dict(base, params=params, steps=final_steps)
    return out_job, final_res


def write_replay(prop, job, result, violation, original_len):
    os.makedirs(REPLAY_DIR, exist_ok=True)
    rec = job_replay_record(prop, job, result, violation, original_len)
    name = f"{prop}-{job.get('seed')}-{job.get('run')}-{digest(rec['steps'], 5)}.json"
    path = os.path.join(REPLAY_DIR, name)
    with open(path, "w") as f:
        json.dump(rec, f, indent=1, default=str)
    return path


def replay_file(path):
    """re-execute a replay file in a fresh interpreter; returns (reproduced, result, rec)"""
    with open(path) as f:
        rec = json.load(f)
    job = {"kind": rec["kind"], "seed": rec.get("seed"), "run": rec.get("run"),
           "env": rec.get("env"), "params": rec["params"], "steps": rec["steps"],
           "ref": rec.get("ref"), "timeout": 900, "want_events": True}
    if rec["expected"]["signature"].get("class") == "liveness":
        job["timeout"] = float(rec.get("timeout") or 300)
        res = host.run_jobs([job])[0]
        if res.get("harness_timeout"):
            res["violations"] = [{"class": "liveness", "detail": "the run does not terminate"}]
        return has_sig(res, rec["expected"]["signature"]), res, rec
    res = host.oneshot(job)
    if res.get("harness_error"):
        return None, res, rec
    v = has_sig(res, rec["expected"]["signature"])
    if v is None:
        # a violation that depends on allocator state (object addresses handed out again,
        # see World._adversarial_new) reproduces in the kind of session it was found in: a
        # process image forked from a freshly started zygote
        res2 = host.run_jobs([job])[0]
        if not res2.get("harness_error"):
            v2 = has_sig(res2, rec["expected"]["signature"])
            if v2 is not None:
                v2 = dict(v2, detail=str(v2.get("detail")) + " [reproduces in a session forked "
                          "from a fresh zygote; not in a non-forked interpreter: depends on "
                          "which addresses the allocator hands out again]")
                return v2, res2, rec
    return v, res, rec


def report_violation(prop, job, result, violation, minimise_budget=90):
    """minimise, write the replay file, verify it in a fresh interpreter, print the line"""
    sig = sig_of(violation)
    original_len = len(result["steps"])
    try:
        if sig.get("class") == "liveness":
            raise RuntimeError("liveness violations are not minimised")
        shrink = None
        if job.get("kind") == "c08":
            from .c08 import shrink_step as shrink
        mjob, mres = minimise(job, result, sig, budget_s=minimise_budget, shrink=shrink)
    except Exception as exc:  # noqa: BLE001
        log(f"minimiser failed ({exc}); reporting the unminimised schedule")
        mjob, mres = explicit_job(job, result), result
    mv = has_sig(mres, sig) or violation
    path = write_replay(prop, mjob, mres, mv, original_len)
    v2, res2, _ = replay_file(path)
    if v2 is None:
        # fall back to the unminimised schedule
        path = write_replay(prop, explicit_job(job, result), result, violation, original_len)
        v2, res2, _ = replay_file(path)
        if v2 is None:
            log(f"HARNESS-ERROR property={prop} violation did not reproduce in a fresh "
                f"interpreter: {json.dumps(sig)} {str(violation.get('detail'))[:300]}")
            return None
    log(f"VIOLATION property={prop} replay={path}")
    log(f"  class={sig.get('class')} rule={sig.get('rule')} template={sig.get('template')} "
        f"steps={len(mres['steps'])} (from {original_len}) seed={job.get('seed')} "
        f"run={job.get('run')} env={json.dumps(mjob.get('env'))}")
    log("  " + str(mv.get("detail"))[:1500])
    return path


def triage_timeouts(jobs, results, factor=3):
    """H5 (bounded recovery / liveness): a run that exceeded its time limit is re-executed
    alone with a longer limit.  If it then completes, the first attempt was a slow machine;
    if it still does not terminate it becomes a ``liveness`` violation whose replay is the
    run itself."""
    idx = [i for i, r in enumerate(results) if r and r.get("harness_timeout")]
    if not idx:
        return 0
    retry = [dict(jobs[i], timeout=float(jobs[i].get("timeout", 300)) * factor) for i in idx]
    res = host.run_jobs(retry, group_size=1)
    n = 0
    for i, j, r in zip(idx, retry, res):
        if r.get("harness_timeout"):
            n += 1
            results[i] = {
                "kind": j["kind"], "seed": j.get("seed"), "run": j.get("run"),
                "params": j.get("params"), "steps": j.get("steps"), "n_steps":
                len(j.get("steps") or []), "digest": None, "stats": None,
                "violations": [{"class": "liveness", "property": None, "step": None,
                                "detail": f"the run did not terminate within "
                                          f"{j['timeout']:.0f}s (first limit "
                                          f"{jobs[i].get('timeout')}s); requests after the "
                                          f"last fault must complete (H5)"}]}
        else:
            results[i] = r
    return n


def harness_failures(results):
    return [r for r in results if r is None or r.get("harness_error") or
            r.get("harness_timeout")]


def write_evidence(prop, tier, seed, coverage, wall, violations, assumptions):
    os.makedirs(EVIDENCE_DIR, exist_ok=True)
    ev = {"property_id": prop, "tier": tier, "seed": seed, "level": "exploration",
          "coverage": coverage, "assumptions": assumptions, "wall_s": round(wall, 2),
          "violations": violations}
    with open(os.path.join(EVIDENCE_DIR, f"{prop}.json"), "w") as f:
        json.dump(ev, f, indent=1, default=str)


def tripwire(jobs, results, seed, frac=0.02, cap=8):
    """re-execute a few runs in a fresh, non-forked interpreter and compare digests"""
    rng = derive(seed, "tripwire")
    idx = [i for i, r in enumerate(results) if r and r.get("digest")]
    if not idx:
        return {"checked": 0, "mismatches": []}
    k = max(2, min(cap, int(len(idx) * frac) + 1))
    pick = rng.sample(idx, min(k, len(idx)))
    mism = []
    from concurrent.futures import ThreadPoolExecutor
    with ThreadPoolExecutor(max_workers=8) as ex:
        outs = list(ex.map(lambda i: host.oneshot(explicit_job(jobs[i], results[i])), pick))
    for i, o in zip(pick, outs):
        if o.get("digest") != results[i]["digest"]:
            mism.append({"run": results[i].get("run"), "fork": results[i]["digest"],
                         "fresh": o.get("digest"), "err": o.get("harness_error")})
    return {"checked": len(pick), "mismatches": mism}


def merge_counts(dst, src):
    for k, v in src.items():
        if isinstance(v, (int, float)):
            dst[k] = dst.get(k, 0) + v
    return dst
