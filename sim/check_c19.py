"""C19 check: results are independent of call history, hash seed and tensor-name
configuration (DESIGN §6)."""
import itertools
import os
import time

from . import host, driver, c19
from . import catalogue as cat
from .driver import log
from .seeds import derive, digest

PROP = "C19"
REF_KEYS = ("outcome", "fp", "text", "skel", "nterms", "keys", "kind", "anf")

DEFAULT_PARAMS = {"shared": True, "dummy_base": 5000000, "dummy_count": 0, "heap_skew": 0,
                  "log_level": "ERROR", "clock_step": 0.001, "abort_mode": "state",
                  "faultfree": True}


# ------------------------------------------------------------------------- reference
def build_reference(tier):
    """every template alone in a pristine default session (DESIGN §4.4)"""
    ts = c19.templates_for(tier)
    jobs = []
    for i, t in enumerate(ts):
        jobs.append({"kind": "c19ref", "seed": 0, "run": f"ref-{t['id']}",
                     "params": DEFAULT_PARAMS, "steps": [{"op": "req", "t": t["id"]}],
                     "want_full": True, "timeout": 900})
    for b in cat.BAD:
        jobs.append({"kind": "c19ref", "seed": 0, "run": f"ref-{b['id']}",
                     "params": DEFAULT_PARAMS, "steps": [{"op": "bad", "t": b["id"]}],
                     "timeout": 120})
    res = host.run_jobs(jobs)
    ref, full, walls = {}, {}, {}
    for j, r in zip(jobs, res):
        tid = j["steps"][0]["t"]
        if r.get("harness_error") or r.get("harness_timeout"):
            raise RuntimeError(f"reference session for {tid} failed: "
                               f"{r.get('harness_error') or 'timeout'}")
        ev = r["events"][0]
        a = ev.get("a") or {}
        ref[tid] = {k: a.get(k) for k in REF_KEYS if a.get(k) is not None}
        if "outcome" not in ref[tid]:
            ref[tid]["outcome"] = a.get("outcome", "value")
        full[tid] = ev.get("full")
        walls[tid] = r["wall_s"]
    return ref, full, walls, jobs, res


def ref_for(ref, steps):
    ids = {s["t"] for s in steps if "t" in s}
    return {i: ref[i] for i in ids if i in ref}


# ------------------------------------------------------------------------- stress histories
def stress_histories():
    """fixed histories run before a probe request (systematic part, DESIGN §6.3)"""
    def req(*ids):
        return [{"op": "req", "t": i} for i in ids]
    H = {
        "pool-rollover": [{"op": "reg.generic", "kw": {"occ": 9, "virt": 9, "general": 9}},
                          {"op": "reg.generic", "kw": {"occ": 7, "virt": 15}}],
        "explicit-pooled": [{"op": "reg.get", "names": ["k3", "c3", "i4", "a4", "m5", "p3"]},
                            {"op": "reg.generic", "kw": {"occ": 4, "virt": 4}}],
        "pp-adc1": req("m.mp.pp.isr_matrix_block(1,ph,ph,ia,jb)",
                       "prop.mp.pp.expectation_value(1,1)"),
        "gs2": req("gs.mp.energy(2)", "gs.mp.amplitude(2,ph,ia)",
                   "gs.mp.expectation_value(2,1)"),
        "re-gs": req("gs.re.energy(2)", "gs.re.amplitude(1,ph,ia)"),
        "itmd": req("expr.factor_intermediates(t2_2_like,t2_1+t2_2)",
                    "itmd.t2_2.expand_itmd(klcd,once)", "expr.reduce_expr(itmds)"),
        "spin": req("expr.spatial(spin1,restricted)", "itmd.t2_2.allowed_spin_blocks"),
        "dummies": [{"op": "dummy.skew", "n": 200}, {"op": "sympy.clear_cache"}],
        "codegen": req("code.generate_code(code3,einsum)", "code.optimize_contractions(code3)",
                       "code.generate_code(contr2,libtensor)"),
        "codegen-long": req(*(["code.generate_code(code3,einsum)",
                               "code.generate_code(pairs,libtensor)"] * 4)),
        "spin-pools": [{"op": "reg.generic", "kw": {k: n}} for k, n in (
            ("occ_a", 2), ("occ_b", 2), ("occ_a", 3), ("occ_b", 3), ("virt_a", 5), ("occ_a", 2),
            ("occ_b", 3), ("virt_b", 5), ("occ_a", 4), ("virt_a", 5), ("occ_b", 2), ("occ_a", 3),
            ("general_a", 3), ("general_b", 6), ("general_a", 4))],
        "imports": req("expr.print_import_print(contr2)", "expr.simplify(big_simplify)",
                       "expr.wicks(wick3)"),
        "aborted-energy": [{"op": "req", "t": "gs.mp.energy(2)",
                            "abort": {"kind": "kbi", "u": 0.55}}],
        "aborted-isr": [{"op": "req", "t": "isr.mp.pp.overlap_precursor(2,ph,ph,ia,jb)",
                         "abort": {"kind": "kbi", "u": 0.8}}],
        "psi-many": req("gs.mp.psi(1,ket)", "gs.mp.psi(2,bra)", "gs.mp.psi(1,ket)",
                        "gs.mp.norm_factor(2)", "gs.mp.norm_factor(2)"),
        "precursors": req("isr.mp.pp.precursor(2,ph,bra,ia)", "isr.mp.pp.precursor(1,ph,ket,ia)",
                          "isr.mp.pp.s_root(2,ph,ph,ia,jb)"),
    }
    return H


DEPENDENT_GROUPS = [
    ["expr.shared.simplify(retarget,targets=ajk)", "expr.shared.simplify(retarget,targets=none)",
     "expr.shared.symmetry(retarget,targets=a)", "expr.shared.simplify(retarget,targets=einstein)"],
    ["expr.shared.symmetry(retarget,targets=jk)", "expr.shared.symmetry(retarget,targets=none)",
     "expr.shared.substitute_contracted(retarget,targets=a)",
     "expr.shared.symmetry(retarget,targets=einstein)"],
    ["m.mp.ip.precursor_matrix_block(2,h,h,i,j)", "m.mp.ip.isr_matrix_block(2,h,h,i,j)",
     "m.mp.ip.mvp_block_order(1,h,h,h,i)"],
    ["m.mp.ea.isr_matrix_block(2,p,p,a,b)", "m.mp.ea.precursor_matrix_block(2,p,p,a,b)"],
    ["expr.factor_intermediates(p0_2_mix,types=[t_amplitude,mp_density])",
     "expr.factor_intermediates(p0_2_mix,types=t_amplitude)",
     "expr.factor_intermediates(p0_2_mix,types=mp_density)"],
    ["expr.factor_intermediates(t1_2_once,types=[t_amplitude,re_residual])",
     "expr.factor_intermediates(t1_2_once,types=re_residual)",
     "expr.factor_intermediates(t1_2_once,t_amplitude)"],
    ["expr.factor_intermediates(t2_2_once,types=[re_residual,t_amplitude,mp_density])",
     "expr.factor_intermediates(t2_2_once,types=t_amplitude)",
     "expr.factor_intermediates(t2_2_once,types=[misc,t_amplitude])",
     "expr.factor_intermediates(t2_2_once,types=misc)"],
    ["expr.factor_intermediates(t1_2_once,names=[p0_2_oo,t1_2])",
     "expr.factor_intermediates(t1_2_once,names=[t2_1,t1_2])",
     "expr.factor_intermediates(t1_2_once,names=[p0_2_vv,t1_2])"],
    ["isr.mp.pp.precursor(2,ph,bra,ia)", "isr.mp.pp.precursor(2,ph,ket,ia)",
     "isr.mp.pp.overlap_precursor(2,ph,ph,ia,jb)"],
    ["isr.mp.pp.s_root(1,ph,ph,ia,jb)", "isr.mp.pp.intermediate_state(1,ph,ket,ia)",
     "isr.mp.pp.overlap_isr(1,ph,ph,ia,jb)", "m.mp.pp.isr_matrix_block(1,ph,ph,ia,jb)"],
    ["gs.mp.energy(2)", "gs.mp.amplitude(2,ph,ia)", "gs.mp.expectation_value(2,1)"],
    ["expr.eri_orbenergy(num_t2)", "expr.factor_intermediates(num_t2,t2_1)",
     "expr.reduce_expr(num_t2)"],
    ["expr.eri_orbenergy(num_t2b)", "expr.factor_intermediates(num_t2b,t2_1)",
     "expr.reduce_expr(num_t2b)"],
    ["m.mp.ip.isr_matrix_block(1,h,h,i,j)", "m.mp.ip.mvp_block_order(1,h,h,h,i)",
     "m.mp.ip.mvp(1,h,i)"],
    ["expr.factor_intermediates(t2_2_like,t2_2)",
     "expr.factor_intermediates(t2_2_like,t2_1+t2_2)", "expr.reduce_expr(itmds)"],
]


_KLCD = ["gs.mp.amplitude(1,pphh,klcd)", "itmd.t2_2.expand_itmd(klcd,once)",
         "itmd.t1_2.expand_itmd(jb,once)", "gs.mp.amplitude(2,ph,jb)"]
_IJAB = ["gs.mp.amplitude(1,pphh,ijab)", "m.mp.pp.isr_matrix_block(1,ph,ph,ia,jb)",
         "gs.mp.amplitude(2,ph,ia)", "itmd.t2_2.expand_itmd(ijab,once)"]
REJECTED_THEN_USE = [
    ("bad.gs.amplitude(1,pphh,kl,cd)", _KLCD),
    ("bad.itmd.t2_1.expand_itmd(kl;cd)", _KLCD),
    ("bad.get_symbols(cdkl,spins=abx)", _KLCD),
    ("bad.get_symbols(ijab?)", _IJAB),
    ("bad.gs.amplitude(2,ph,ij)", _IJAB),
    ("bad.gs.amplitude(2,ph,j4x)", ["gs.mp.psi(2,bra)", "gs.mp.psi(2,ket)", "gs.mp.norm_factor(2)"]),
    ("bad.get_symbols(m5e5z)", ["gs.mp.psi(2,bra)", "gs.mp.psi(2,ket)", "gs.mp.psi(2,ket)",
                                "gs.mp.norm_factor(2)"]),
    ("bad.gs.amplitude(1,pphh,k4l4c4)", ["gs.mp.psi(2,bra)", "gs.mp.psi(2,ket)",
                                         "gs.mp.psi(2,ket)"]),
]

# requests whose text depended on the hash seed / Dummy count before fix c65a38d (anonymous
# same-named indices created by wicks): checked under every environment of the pool
ENV_REGRESSION = {"expr.wicks(opgen)", "expr.wicks(opgen,deltas)", "expr.wicks(wick3,nodeltas)",
                  "expr.wicks(opstring2)",
                  # several equivalent results exist: the choice must not follow hash order
                  "expr.cancel_orb_energy_frac(dep4)", "expr.cancel_orb_energy_frac(dep4x)",
                  "expr.reduce_expr(dep4)",
                  # numbered index names in generated code
                  "code.generate_code(code3_num,einsum)", "code.generate_code(contr2_num,einsum)"}

# requests that mix user-chosen contracted names with generic ones: issued at every phase of
# the generic name pools (which generic names are handed out depends only on how many were
# requested before)
POOL_PHASE = ["expr.expand_substitute(gap_kc)", "expr.expand_substitute(gap_me)",
              "expr.expand_substitute(gap_ld)", "expr.norm_times(gap_kcY)",
              "expr.norm_times(gap_ldY)", "expr.expand_intermediates(itmds,once)",
              "expr.expand_simplify(gap_kc)", "itmd.t1_2.expand_itmd(jb,once)",
              "expr.simplify(alpha3)", "gs.mp.amplitude(2,ph,jb)",
              "expr.factor_intermediates(num_t2,t2_1)", "expr.eri_orbenergy(num_t2b)"]

PANEL = ["m.mp.pp.isr_matrix_block(1,ph,ph,ia,jb)", "gs.mp.expand_norm_factor(6)",
         "isr.mp.pp.expand_S_taylor(6)", "isr.mp.ea.precursor(1,p,ket,a)",
         "m.mp.ip.isr_matrix_block(1,h,h,i,j)", "gs.mp.energy(2)", "prop.mp.pp.trans_moment(1)",
         "gs.re.energy(1)", "expr.factor_intermediates(t2_1x,t2_1)",
         "gs.mp.expectation_value(1,1)", "isr.mp.pp.overlap_precursor(1,ph,ph,ia,jb)",
         "m.mp.ea.mvp_block_order(1,p,p,p,a)", "itmd.t1_2.expand_itmd(jb,once)",
         "expr.simplify(alpha3)", "code.generate_code(contr2,einsum)",
         "gs.mps.amplitude(1,ph,ia)", "expr.spatial(spin1,restricted)"]

ABORT_SWEEP = [
    ("gs.mp.energy(2)", ["gs.mp.amplitude(2,ph,ia)", "gs.mp.expectation_value(2,1)"]),
    ("isr.mp.pp.overlap_precursor(2,ph,ph,ia,jb)",
     ["isr.mp.pp.s_root(2,ph,ph,ia,jb)", "isr.mp.pp.precursor(2,ph,ket,ia)"]),
    ("expr.factor_intermediates(t2_2_like,t2_1+t2_2)",
     ["expr.factor_intermediates(t2_2_like,t2_2)", "itmd.t2_2.expand_itmd(ijab,full)"]),
    ("expr.factor_intermediates(t2_2_sym4,t2_2)",
     ["expr.factor_intermediates(t2_2_shared,t2_2)",
      "expr.factor_intermediates(t2_2_like,t2_2)"]),
    ("m.mp.ip.isr_matrix_block(1,h,h,i,j)", ["m.mp.ip.mvp_block_order(1,h,h,h,i)",
                                             "isr.mp.ip.overlap_isr(1,h,h,i,j)"]),
    ("prop.mp.pp.trans_moment(1)", ["prop.mp.pp.expectation_value(1,1)"]),
    ("itmd.t1_3.expand_itmd(ia,full)", ["itmd.t1_3.expand_itmd(kc,once)",
                                        "itmd.t2_2.expand_itmd(klcd,once)"]),
    ("expr.reduce_expr(itmds)", ["expr.expand_intermediates(itmds)"]),
    ("gs.re.amplitude(1,ph,ia)", ["gs.re.energy(2)"]),
]


def abort_sweep_jobs(ref, env, seed, points, targets, mode="state", by_line=False):
    probes = []
    for tid, _ in targets:
        st = {"op": "req", "t": tid, "abort": {"kind": "kbi", "k": 10 ** 9}}
        probes.append({"kind": "c19", "seed": seed, "run": f"abort-probe-{tid}", "env": env,
                       "want_first_hits": by_line,
                       "params": dict(DEFAULT_PARAMS, abort_mode=mode, faultfree=False),
                       "steps": [st], "ref": ref_for(ref, [st]), "timeout": 900})
    res = host.run_jobs(probes)
    jobs = []
    for (tid, follow), r in zip(targets, res):
        if r.get("harness_error") or r.get("harness_timeout") or not r["stats"]["abort_n"]:
            raise RuntimeError(f"abort sweep probe for {tid} failed: "
                               f"{str(r.get('harness_error'))[-500:]}")
        n = r["stats"]["abort_n"][0]
        rng = derive(seed, "c19", "abort-sweep", tid)
        if by_line:
            hits = (r["stats"].get("abort_first_hits") or [[]])[0]
            if len(hits) > points:
                off = rng.randrange(max(1, len(hits) // points))
                hits = hits[off::max(1, len(hits) // points)][:points]
            ks = hits
        elif n <= points:
            ks = list(range(1, n + 1))
        else:  # evenly spread, jittered by the seed
            ks = sorted({1 + min(n - 1, int((i + rng.random()) * n / points))
                         for i in range(points)})
        for k in ks:
            kind = "mem" if k % 4 == 0 else "kbi"
            steps = [{"op": "req", "t": tid, "abort": {"kind": kind, "k": k}}]
            steps += [{"op": "req", "t": f} for f in follow if f in ref]
            jobs.append({"kind": "c19", "seed": seed,
                         "run": f"abort-{'line-' if by_line else ''}{tid}-{k}", "env": env,
                         "params": dict(DEFAULT_PARAMS, abort_mode=mode, faultfree=False,
                                        shared=bool(k % 2)),
                         "steps": steps, "ref": ref_for(ref, steps), "timeout": 900})
    return jobs


LINE_SWEEP = [
    ("gs.mp.energy(1)", ["gs.mp.energy(2)", "gs.mp.amplitude(1,ph,ia)", "gs.re.energy(1)"]),
    ("expr.factor_intermediates(t2_1x,t2_1)",
     ["expr.factor_intermediates(mp2,all)", "expr.simplify(alpha3)"]),
    ("isr.mp.pp.overlap_precursor(1,ph,ph,ia,jb)",
     ["isr.mp.pp.s_root(1,ph,ph,ia,jb)", "m.mp.pp.isr_matrix_block(1,ph,ph,ia,jb)"]),
    ("expr.simplify(big_simplify,real)", ["expr.simplify(alpha2)",
                                          "expr.shared.simplify(retarget,targets=a)"]),
    ("expr.spatial(spin1,restricted)", ["expr.spatial(spin2,restricted)",
                                        "itmd.t2_1.allowed_spin_blocks"]),
    ("code.generate_code(contr2,einsum)", ["code.generate_code(code3,einsum)"]),
    ("expr.reduce_expr(t1_2_once)", ["expr.reduce_expr(p0_2_mix)"]),
    ("prop.mp.pp.trans_moment(1)", ["prop.mp.ip.trans_moment(1)",
                                    "m.mp.pp.isr_matrix_block(1,ph,ph,ia,jb)"]),
]

SPELLING = ["isr.mp.pp.overlap_precursor(1,ph,ph,ia,jb)", "isr.mp.pp.s_root(1,ph,ph,ia,jb)",
            "isr.mp.ip.overlap_isr(1,h,h,i,j)", "m.mp.pp.isr_matrix_block(1,ph,ph,ia,jb)",
            "m.mp.ea.mvp_block_order(1,p,p,p,a)", "m.mp.pp.precursor_matrix_block(1,ph,ph,ia,jb)",
            "isr.mp.ea.overlap_precursor(2,p,p,a,b)", "m.mp.ip.isr_matrix_block(2,h,h,i,j)"]

TWINS = [
    ("gs.mp.expectation_value(2,1)", "gs.mp.expectation_value(1,2)"),
    ("gs.mps.expectation_value(2,1)", "gs.mps.expectation_value(1,2)"),
    ("op.mp.operator(2,1)", "op.mp.operator(1,2)"),
    ("op.re.operator(1,0)", "op.re.operator(0,1)"),
    ("expr.term_symmetry(sym3,only_contracted)", "expr.term_symmetry(sym3,only_target)"),
]


# ------------------------------------------------------------------------- main
def run(tier, seed):
    t0 = time.time()
    thorough = tier == "thorough"
    budget = float(os.environ.get("VERIF_BUDGET_S", 1700 if thorough else 110))
    try:
        ref, ref_full, ref_walls, ref_jobs, ref_res = build_reference(tier)
    except RuntimeError as exc:
        log(f"HARNESS-ERROR {exc}")
        return 2
    log(f"[C19] reference: {len(ref)} templates, {time.time() - t0:.0f}s")
    tids = [t["id"] for t in c19.templates_for(tier)]
    pool = driver.env_pool(seed, 32 if thorough else 12, thorough)
    rng = derive(seed, "c19", "host")
    # violations inside a pristine single-request session (registry model, H2) are
    # reported like any other
    cpu = {}
    all_jobs, all_results = list(ref_jobs), list(ref_res)
    families = ["reference"] * len(ref_jobs)

    def submit(jobs, family, group_size=None):
        res = host.run_jobs(jobs, group_size=group_size)
        all_jobs.extend(jobs)
        all_results.extend(res)
        families.extend([family] * len(jobs))
        cpu[family] = cpu.get(family, 0) + sum((r or {}).get("wall_s", 0) or 0 for r in res)
        return res

    # ---- family E: empty history, environment varied (strict literal equality)
    n_env = 6 if thorough else 3
    jobs = []
    for tid in tids:
        if tid in ENV_REGRESSION:
            # regression schedules of repaired defects: all environments of the pool
            envs = pool[1:]
        elif cat.BY_ID[tid]["cost"] >= 2 and not thorough:
            envs = [pool[1 + rng.randrange(len(pool) - 1)]]
        else:
            envs = [pool[1 + rng.randrange(len(pool) - 1)] for _ in range(n_env)]
        for k, env in enumerate(envs):
            p = dict(DEFAULT_PARAMS, dummy_base=rng.randrange(10 ** 6, 9 * 10 ** 6),
                     dummy_count=rng.choice([0, 17, 123456]),
                     heap_skew=rng.choice([0, 5000, 40000]),
                     log_level=rng.choice(["ERROR", "INFO", "DEBUG"]),
                     clock_step=rng.choice([0.0, 0.001, 3600.0]),
                     shared=rng.random() < 0.5)
            steps = [{"op": "req", "t": tid}]
            jobs.append({"kind": "c19", "seed": seed, "run": f"env-{tid}-{k}", "env": env,
                         "params": p, "steps": steps, "ref": ref_for(ref, steps),
                         "timeout": 900})
    submit(jobs, "env")
    log(f"[C19] family env-only: {len(jobs)} runs, {time.time() - t0:.0f}s")

    # ---- family config-only: empty history, non-default tensor names (H3)
    configs = [c for c in sorted(host_configs()) if c != "default"]
    jobs = []
    for n, tid in enumerate(tids):
        rot = [c for c in configs if c != "full"]
        quick_cfgs = ["full", rot[n % len(rot)]] if cat.BY_ID[tid]["cost"] <= 2 else \
            [["full"], [rot[n % len(rot)]]][(n + seed) % 2]
        for c in (configs if thorough else quick_cfgs):
            env = dict(pool[rng.randrange(len(pool))], config=c)
            steps = [{"op": "req", "t": tid}]
            jobs.append({"kind": "c19", "seed": seed, "run": f"config-{c}-{tid}", "env": env,
                         "params": DEFAULT_PARAMS, "steps": steps, "ref": ref_for(ref, steps),
                         "timeout": 900})
    submit(jobs, "config-only")
    log(f"[C19] family config-only: {len(jobs)} runs, {time.time() - t0:.0f}s")

    # ---- systematic part
    jobs = []
    if thorough:
        H = stress_histories()
        for hname, hist in H.items():
            for tid in tids:
                steps = hist + [{"op": "req", "t": tid}]
                jobs.append({"kind": "c19", "seed": seed, "run": f"sys-{hname}-{tid}",
                             "env": pool[0], "params": dict(DEFAULT_PARAMS, faultfree=False),
                             "steps": steps, "ref": ref_for(ref, steps), "timeout": 1200})
    else:
        H = stress_histories()
        names = sorted(H)
        for n, tid in enumerate(tids):
            hname = names[rng.randrange(len(names))]
            if cat.BY_ID[tid]["cost"] >= 3 and (n + seed) % 2:
                continue     # expensive templates: every other one per seed in the quick tier
            steps = H[hname] + [{"op": "req", "t": tid}]
            jobs.append({"kind": "c19", "seed": seed, "run": f"sys-{hname}-{tid}",
                         "env": pool[0], "params": dict(DEFAULT_PARAMS, faultfree=False),
                         "steps": steps, "ref": ref_for(ref, steps), "timeout": 900})
    for g in DEPENDENT_GROUPS:
        if not all(i in ref for i in g):
            continue
        perms = list(itertools.permutations(g))
        if not thorough:
            perms = perms[:6]
        for k, perm in enumerate(perms):
            for shared in (True, False):
                steps = [{"op": "req", "t": i} for i in perm]
                jobs.append({"kind": "c19", "seed": seed, "run": f"order-{g[0]}-{k}-{shared}",
                             "env": pool[0], "params": dict(DEFAULT_PARAMS, shared=shared),
                             "steps": steps, "ref": ref_for(ref, steps), "timeout": 1200})
    # argument-permuted twins in every combination of call forms: the same request
    # written positionally / with keywords in any order is the same request, and a request
    # whose argument values are a permutation of another's is a different one
    # the same request spelled with tuples instead of comma separated strings, before and
    # after the string spelling, on shared objects
    for tid in SPELLING:
        if tid not in ref:
            continue
        for order in ((5, 0), (0, 5), (5, 5)):
            steps = [{"op": "req", "t": tid, "form": f} for f in order]
            jobs.append({"kind": "c19", "seed": seed, "run": f"spelling-{tid}-{order}",
                         "env": pool[0], "params": DEFAULT_PARAMS, "steps": steps,
                         "ref": ref_for(ref, steps), "timeout": 900})
    # requests whose target names belong to a generic generation that has not been produced
    # yet: the caller registers exactly these names first (a legal explicit request), then
    # issues the request - the result must be the one of the pristine session
    from .registry_model import split_names
    for tid in tids:
        tg = cat.BY_ID[tid].get("targets")
        if not tg or tid not in ref:
            continue
        names = [n for n in split_names(tg) if n[1:].isdigit() and int(n[1:]) >= 3]
        if not names:
            continue
        for k, first in enumerate((names, names[::-1], names[:1])):
            steps = [{"op": "reg.get", "names": list(first)}, {"op": "req", "t": tid}]
            jobs.append({"kind": "c19", "seed": seed, "run": f"registered-first-{k}-{tid}",
                         "env": pool[0], "params": DEFAULT_PARAMS, "steps": steps,
                         "ref": ref_for(ref, steps), "timeout": 900})
    for tid in POOL_PHASE:
        if tid not in ref:
            continue
        for n in range(9):
            if not thorough and cat.BY_ID[tid]["cost"] >= 2 and n % 3 != seed % 3:
                continue
            kw = {"occ": n, "virt": (2 * n + 1) % 9, "general": n % 3}
            steps = [{"op": "reg.generic", "kw": {k: v for k, v in kw.items() if v}},
                     {"op": "req", "t": tid}]
            if n % 2:
                steps.append({"op": "req", "t": tid})
            jobs.append({"kind": "c19", "seed": seed, "run": f"phase-{n}-{tid}",
                         "env": pool[0], "params": DEFAULT_PARAMS, "steps": steps,
                         "ref": ref_for(ref, steps), "timeout": 900})
    # the same request with other target index names (slots exchanged, crossed, chained,
    # disjoint, permuted within a slot) before / after the base request on shared objects:
    # a later request must not be answered from an earlier one by a renaming that is only
    # right for some name patterns
    for base, variants in cat.NAMEVAR.items():
        ids = [base] + [v for v in variants if v in ref]
        if base not in ref:
            continue
        for v in ids[1:]:
            for x, y in ((base, v), (v, base)):
                steps = [{"op": "req", "t": x}, {"op": "req", "t": y}, {"op": "req", "t": x}]
                jobs.append({"kind": "c19", "seed": seed, "run": f"namevar-{x}-{y}",
                             "env": pool[0], "params": DEFAULT_PARAMS, "steps": steps,
                             "ref": ref_for(ref, steps), "timeout": 900})
        if len(ids) > 2:
            order = ids[1:] + [base]
            rng.shuffle(order)
            steps = [{"op": "req", "t": base}] + [{"op": "req", "t": i, "form": rng.choice([0, 5])}
                                                    for i in order]
            jobs.append({"kind": "c19", "seed": seed, "run": f"namevar-all-{base}",
                         "env": pool[0], "params": DEFAULT_PARAMS, "steps": steps,
                         "ref": ref_for(ref, steps), "timeout": 1200})
    for a, b in TWINS:
        if a not in ref or b not in ref:
            continue
        for fa in range(5):
            for fb in range(5):
                if not thorough and (fa + 2 * fb) % 3 and fa != fb:
                    continue
                for x, y, fx, fy in ((a, b, fa, fb), (b, a, fb, fa)):
                    steps = [{"op": "req", "t": x, "form": fx}, {"op": "req", "t": y, "form": fy},
                             {"op": "req", "t": x, "form": fy}]
                    jobs.append({"kind": "c19", "seed": seed,
                                 "run": f"twins-{x}-{fx}-{y}-{fy}", "env": pool[0],
                                 "params": DEFAULT_PARAMS, "steps": steps,
                                 "ref": ref_for(ref, steps), "timeout": 900})
    # the transpose of "every template after fixed histories": every template as the history
    # of a fixed panel of core requests (a request that leaves something behind in
    # process-level state - a memo table, a mutated default - shows up in the panel)
    panel = [t for t in PANEL if t in ref]
    if not thorough:
        panel = panel[:4]
    for n, tid in enumerate(tids):
        if cat.BY_ID[tid]["cost"] > (8 if thorough else 3):
            continue
        steps = [{"op": "req", "t": tid}] + [{"op": "req", "t": t} for t in panel if t != tid]
        jobs.append({"kind": "c19", "seed": seed, "run": f"panel-{tid}", "env": pool[0],
                     "params": dict(DEFAULT_PARAMS, shared=bool(n % 2)),
                     "steps": steps, "ref": ref_for(ref, steps), "timeout": 900})
    # one calculation after another in a long session: every derivation object is thrown away
    # (garbage collected) between the blocks, the next block builds new objects - of another
    # Hamiltonian / variant - possibly at the same addresses
    blocks = {
        "mp": ["gs.mp.energy(0)", "gs.mp.energy(2)", "gs.mp.amplitude(1,ph,ia)",
               "gs.mp.expectation_value(2,1)", "isr.mp.pp.overlap_precursor(1,ph,ph,ia,jb)"],
        "re": ["gs.re.energy(0)", "gs.re.energy(2)", "gs.re.amplitude(1,ph,ia)",
               "gs.re.expectation_value(2,1)", "isr.re.pp.amplitude_vector(ia,right)"],
        "mps": ["gs.mps.energy(0)", "gs.mps.energy(2)", "gs.mps.amplitude(1,ph,ia)",
                "gs.mps.expectation_value(2,1)", "gs.mps.overlap(2)"],
        "ip": ["m.mp.ip.isr_matrix_block(1,h,h,i,j)", "isr.mp.ip.overlap_isr(1,h,h,i,j)"],
        "ea": ["isr.mp.ea.overlap_isr(1,p,p,a,b)", "isr.mp.ea.s_root(2,p,p,a,b)"],
    }
    names = sorted(blocks)
    for a in names:
        for b in names:
            if a == b:
                continue
            cross = (a == "re") != (b == "re")      # different Hamiltonians
            modes = [(e, r) for e in (False, True) for r in range(3 if thorough else 2)] \
                if cross else [(False, 0)]
            for eph, rep in modes:
                steps = [{"op": "req", "t": t} for t in blocks[a]] + [{"op": "dropall"}] + \
                        [{"op": "req", "t": t} for t in blocks[b]] + [{"op": "dropall"}] + \
                        [{"op": "req", "t": t} for t in reversed(blocks[a])]
                steps = [st for st in steps if st["op"] != "req" or st["t"] in ref]
                jobs.append({"kind": "c19", "seed": seed,
                             "run": f"sessions-{a}-{b}-{int(eph)}-{rep}",
                             "env": pool[rep], "params": dict(DEFAULT_PARAMS,
                                                              heap_skew=rep * 5000,
                                                              ephemeral=eph),
                             "steps": steps, "ref": ref_for(ref, steps), "timeout": 900})
    # a request rejected half-way, then derivations that consume generic indices, then
    # requests whose explicit target names are the names the rejected request had touched
    for b, probes in REJECTED_THEN_USE:
        for consumers in (["op.mp.h1"], ["gs.mp.energy(2)", "gs.mp.psi(2,ket)"],
                          [{"op": "reg.generic", "kw": {"occ": 9, "virt": 9}},
                           {"op": "reg.generic", "kw": {"occ": 9, "virt": 9}}]):
            for shared in (True, False):
                steps = [{"op": "bad", "t": b}]
                steps += [c if isinstance(c, dict) else {"op": "req", "t": c}
                          for c in consumers]
                steps += [{"op": "req", "t": t} for t in probes if t in ref]
                jobs.append({"kind": "c19", "seed": seed, "run": f"rejected-{b}-{len(jobs)}",
                             "env": pool[0], "params": dict(DEFAULT_PARAMS, shared=shared),
                             "steps": steps, "ref": ref_for(ref, steps), "timeout": 900})
    submit(jobs, "systematic")
    log(f"[C19] systematic histories: {len(jobs)} runs, {time.time() - t0:.0f}s")

    # ---- abort sweep: selected requests cut at every n-th eligible line event, then
    # re-issued and followed by requests that share their cached ingredients
    try:
        jobs = abort_sweep_jobs(ref, pool[0], seed, points=120 if thorough else 10,
                                targets=ABORT_SWEEP if thorough else ABORT_SWEEP[:5])
    except RuntimeError as exc:
        log(f"HARNESS-ERROR {exc}")
        return 2
    # the same over every distinct source line a cheap request executes anywhere in adcgen
    # (first execution of each line): a window between two statements of *any* function -
    # state that is modified temporarily and restored without try/finally - is hit at least
    # once per line, not with the probability of a random event
    try:
        jobs += abort_sweep_jobs(ref, pool[0], seed, points=400 if thorough else 24,
                                 targets=LINE_SWEEP if thorough else LINE_SWEEP[:3],
                                 mode="global", by_line=True)
    except RuntimeError as exc:
        log(f"HARNESS-ERROR {exc}")
        return 2
    submit(jobs, "abort-sweep")
    log(f"[C19] abort sweep: {len(jobs)} runs, {time.time() - t0:.0f}s")

    # ---- seeded histories (default configuration) and configuration runs
    run_no = 0
    batch = 256 if thorough else 128
    while True:
        jobs = []
        for _ in range(batch):
            env = dict(pool[rng.randrange(len(pool))])
            family = "history"
            if run_no % 5 == 4:
                env["config"] = configs[rng.randrange(len(configs))]
                family = "config"
            params, steps = c19.generate(seed, run_no, tier, template_ids=tids)
            jobs.append({"kind": "c19", "seed": seed, "run": run_no, "tier": tier, "env": env,
                         "params": params, "steps": steps, "ref": ref_for(ref, steps),
                         "timeout": 1500 if thorough else 600, "family": family})
            run_no += 1
        res = host.run_jobs(jobs)
        all_jobs.extend(jobs)
        all_results.extend(res)
        families.extend(j["family"] for j in jobs)
        el = time.time() - t0
        log(f"[C19] {run_no} seeded runs, {el:.0f}s")
        if el > budget or (not thorough and run_no >= 256):
            break

    n_live = driver.triage_timeouts(all_jobs, all_results)
    if n_live:
        log(f"[{PROP}] {n_live} runs do not terminate (liveness)")
    log("[C19] cpu seconds per family: " + ", ".join(f"{k}={v:.0f}" for k, v in cpu.items()))
    harness = driver.harness_failures(all_results)
    if harness:
        # a run that hangs after an injected fault would be a liveness violation (H5);
        # anything else is a harness error
        for h in harness[:5]:
            log("HARNESS-ERROR " + str(h)[-1500:])
        return finish(tier, seed, ref, all_jobs, all_results, families, t0, [], 2, None, {})

    trip = driver.tripwire(all_jobs, all_results, seed, cap=6)
    if trip["mismatches"]:
        log(f"HARNESS-ERROR replay digests differ between forked and fresh interpreters: "
            f"{trip['mismatches'][:3]}")
        return finish(tier, seed, ref, all_jobs, all_results, families, t0, [], 2, trip, {})

    # ---- violations: classify text divergences, apply known findings, report
    known = driver.load_known()
    reported, seen, exit_code = [], {}, 0
    pending = []
    for job, res in zip(all_jobs, all_results):
        for v in res["violations"]:
            pending.append((job, res, v))
    # control runs for text divergences: same template alone under the run's environment
    controls = {}
    cjobs = []
    for job, res, v in pending:
        if v["class"] != "text":
            continue
        key = (v["template"], host.env_key(job.get("env")), digest(res["params"], 6))
        if key in controls:
            continue
        controls[key] = len(cjobs)
        steps = [{"op": "req", "t": v["template"]}]
        cjobs.append({"kind": "c19", "seed": seed, "run": f"control-{v['template']}",
                      "env": job.get("env"), "params": res["params"], "steps": steps,
                      "ref": ref_for(ref, steps), "timeout": 900})
    cres = host.run_jobs(cjobs) if cjobs else []
    for job, res, v in pending:
        v = dict(v)
        if v["class"] == "text":
            key = (v["template"], host.env_key(job.get("env")), digest(res["params"], 6))
            c = cres[controls[key]]
            env_dep = any(x["class"] == "text" and x["template"] == v["template"]
                          for x in c.get("violations", []))
            v["class"] = "text-env" if env_dep else "text-history"
        sig = driver.sig_of(v)
        skey = digest(sig, 6)
        k = driver.match_known(known, PROP, sig)
        if k is not None:
            if skey not in seen:
                log(f"KNOWN-FINDING: property={PROP} {k.get('what')}")
                seen[skey] = {"signature": sig, "count": 0, "known": True}
            seen[skey]["count"] += 1
            continue
        if skey in seen:
            seen[skey]["count"] += 1
            continue
        seen[skey] = {"signature": sig, "count": 1, "known": False}
        if len(reported) < 4:
            # the replay keeps the child-side class ("text"); the host-side class is noted
            child_v = next(x for x in res["violations"]
                           if x.get("template") == v.get("template") and
                           x["class"] == ("text" if v["class"].startswith("text") else v["class"]))
            path = driver.report_violation(PROP, job, res, child_v,
                                           minimise_budget=150 if thorough else 60)
            if v.get("template") in ref_full:
                log(f"  pristine session: {str(ref_full[v['template']])[:1500]}")
            if path is None:
                exit_code = max(exit_code, 2)
            else:
                log(f"  classified as class={v['class']}")
                reported.append({"replay": path, "signature": sig})
                exit_code = 1
        else:
            log(f"VIOLATION property={PROP} replay=none (further distinct signature, not "
                f"minimised) {sig}")
            exit_code = 1
    return finish(tier, seed, ref, all_jobs, all_results, families, t0, reported, exit_code,
                  trip, seen)


def host_configs():
    from .runtime import CONFIGS
    return CONFIGS


def finish(tier, seed, ref, jobs, results, families, t0, reported, exit_code, trip, sigs):
    ok = [(j, r, f) for j, r, f in zip(jobs, results, families) if r and r.get("stats")]
    counts, model = {}, {}
    fault_kinds, fault_sites, fault_missed = {}, {}, 0
    sched, nontrivial, reg_states, fill_states = set(), set(), set(), set()
    per_family, per_template = {}, {}
    n_steps, clock_calls, clock_lo, clock_hi = 0, 0, None, None
    clock_callers = set()
    envs, confs = {}, {}
    for j, r, f in ok:
        st = r["stats"]
        driver.merge_counts(counts, st["counts"])
        driver.merge_counts(model, st["model"])
        fault_missed += st["faults_missed"]
        for x in st["faults_fired"]:
            fault_kinds["abort-" + x["kind"]] = fault_kinds.get("abort-" + x["kind"], 0) + 1
            site = f"{x['file']}:{x['func']}"
            fault_sites[site] = fault_sites.get(site, 0) + 1
        for s in r["steps"]:
            kind = {"bad": "reject", "dropcache": "cache-loss", "newobj": "cache-loss",
                    "dropall": "cache-loss",
                    "sympy.clear_cache": "cache-loss", "dummy.skew": "dummy-skew",
                    "clock.jump": "clock-jump"}.get(s["op"])
            if kind:
                fault_kinds[kind] = fault_kinds.get(kind, 0) + 1
            if s["op"] == "req":
                per_template[s["t"]] = per_template.get(s["t"], 0) + 1
        sched.add(st["schedule_digest"])
        if r["n_steps"] >= 3 and st["counts"]["compared"] >= 1:
            nontrivial.add(st["schedule_digest"])
        reg_states.update(st["reg_states"])
        fill_states.update(st["fill_states"])
        per_family[f] = per_family.get(f, 0) + 1
        n_steps += r["n_steps"]
        c = st["clock"]
        clock_calls += c["calls"]
        clock_callers.update(c["callers"])
        clock_lo = c["lo"] if clock_lo is None else min(clock_lo, c["lo"])
        clock_hi = c["hi"] if clock_hi is None else max(clock_hi, c["hi"])
        e = host.env_key(j.get("env"))
        envs[e[0]] = envs.get(e[0], 0) + 1
        confs[e[1]] = confs.get(e[1], 0) + 1
    wall = time.time() - t0
    samples = []
    for j, r, f in ok:
        if f in ("history", "config") and r["n_steps"] >= 3 and len(samples) < 3:
            samples.append({"family": f, "seed": r["seed"], "run": r["run"], "env": j.get("env"),
                            "params": r["params"], "steps": r["steps"][:20],
                            "digest": r["digest"]})
    never = sorted(t for t in ref if t not in per_template and not t.startswith("bad."))
    coverage = {
        "evaluations": len(ok),
        "distinct_nontrivial": len(nontrivial),
        "rule": "one evaluation = one simulated session (process image forked from a zygote "
                "with the run's hash seed / tensor-name configuration / sympy cache size) "
                "executing one schedule of requests; every executed request is compared with "
                "the artefacts of the same request in a pristine default session rebuilt from "
                "/repo on every invocation. distinct = distinct schedule digests; non-trivial "
                "= at least 3 steps and at least one comparison with the reference",
        "samples": samples,
        "runs_per_family": per_family,
        "reference_templates": len(ref),
        "requests_executed": counts.get("req", 0),
        "requests_per_template_min_max": [min(per_template.values() or [0]),
                                          max(per_template.values() or [0])],
        "templates_never_executed_in_a_history": never[:20],
        "steps_executed": n_steps,
        "runs_per_hour": round(len(ok) / wall * 3600),
        "oracle_comparisons": {
            "H1_value_fingerprint": counts.get("H1_value", 0),
            "H1_structure": counts.get("H1_struct", 0),
            "H1_alpha_normal_form": counts.get("H1_anf", 0),
            "H1_literal_text": counts.get("H1_text", 0),
            "H2_wavefunction_or_norm_pairs_disjoint": counts.get("H2_pairs", 0),
            "H3_value_under_renamed_tensors": counts.get("H3", 0),
            "H4_outcome_class": counts.get("H4", 0),
            "requests_after_a_fault": counts.get("after_fault_req", 0),
            "repeated_requests_memo_hit": counts.get("cache_hit_repeat", 0),
            "R1_freshness": model.get("R1", 0), "R2_identity": model.get("R2", 0)},
        "faults_fired": fault_kinds,
        "fault_sites": dict(sorted(fault_sites.items(), key=lambda kv: -kv[1])[:25]),
        "faults_configured_but_not_fired": fault_missed,
        "hash_seeds": envs, "configurations": confs,
        "distinct_registry_states": len(reg_states),
        "distinct_memo_cache_fill_states": len(fill_states),
        "derivation_objects_rebuilt_at_a_dead_address": sum(
            r["stats"].get("id_reuse", 0) for _, r, _ in ok),
        "simulated_clock": {"calls": clock_calls, "min": clock_lo, "max": clock_hi,
                            "callers": sorted(clock_callers),
                            "note": "no result depends on time"},
        "components": driver.REAL_STUB,
        "determinism_tripwire": trip,
        "violation_signatures": list(sigs.values()),
        "replays": reported,
        "explanation": "seeded histories of API requests from several logical clients sharing "
                       "one process image, under varied hash seed, Dummy base/count, heap skew, "
                       "sympy cache size, log level, simulated clock and tensor-name "
                       "configuration, with injected aborts, rejected requests and cache loss; "
                       "every request compared (value fingerprint over F_p, structure, literal "
                       "text after the library's own substitute_contracted) with a pristine "
                       "session",
    }
    assumptions = [
        "target-index names of generated requests are plain letters, x1/x2 names or pooled "
        "names not yet handed out (DESIGN 6.2)",
        "value equality = equal fingerprints in the tensor model over F_p (2 occupied / 2 "
        "virtual orbitals, 8 target assignments, 2 model seeds); expressions with "
        "second-quantised operators are compared structurally and literally only",
        "structure = index-free skeleton multiset + term count (weaker than a full "
        "alpha-canonical form)",
        "C19 establishes independence, never correctness",
    ]
    nviol = sum(len(r.get("violations") or []) for r in results if r)
    driver.write_evidence(PROP, tier, seed, coverage, wall, nviol, assumptions)
    log(f"[C19] {len(ok)} runs, {counts.get('req', 0)} requests, "
        f"{sum(fault_kinds.values())} faults fired, {nviol} violation records, "
        f"exit {exit_code}, {wall:.0f}s")
    return exit_code
