"""Zygote / one-shot interpreter entry (DESIGN §3.1).

    zygote.py serve   <config_id>     read one JSON job per line on stdin, fork a child per
                                      job, answer one JSON line per job on the original stdout
    zygote.py oneshot <config_id>     run the single job on stdin in *this* fresh interpreter
"""
import faulthandler
import json
import os
import select
import sys
import traceback


def run_job(job):
    kind = job["kind"]
    if kind == "c08":
        from . import c08
        return c08.execute(job)
    if kind in ("c19", "c19ref"):
        from . import c19
        return c19.execute(job)
    if kind == "ping":
        from . import runtime
        from sympy import Dummy
        return {"kind": "ping", "hashseed": os.environ.get("PYTHONHASHSEED"),
                "hash_i": hash("i") % 1000, "config": runtime._state.get("names"),
                "dummy_base": Dummy._base_dummy_index}
    raise ValueError(f"unknown job kind {kind}")


def _safe_run(job):
    try:
        return run_job(job)
    except BaseException:  # noqa: BLE001 - report, never die silently
        return {"kind": job.get("kind"), "seed": job.get("seed"), "run": job.get("run"),
                "harness_error": traceback.format_exc()[-4000:]}


def _in_child(job, timeout):
    r, w = os.pipe()
    pid = os.fork()
    if pid == 0:
        code = 0
        try:
            os.close(r)
            faulthandler.dump_traceback_later(timeout + 30, exit=True)
            res = _safe_run(job)
            data = json.dumps(res, default=str).encode()
            view = memoryview(data)
            while view:
                n = os.write(w, view)
                view = view[n:]
        except BaseException:  # noqa: BLE001
            code = 3
        finally:
            os._exit(code)
    os.close(w)
    from .runtime import REAL_PERF
    deadline = REAL_PERF() + timeout
    chunks = []
    timed_out = False
    while True:
        left = deadline - REAL_PERF()
        if left <= 0:
            timed_out = True
            break
        rl, _, _ = select.select([r], [], [], min(left, 5.0))
        if not rl:
            continue
        chunk = os.read(r, 1 << 16)
        if not chunk:
            break
        chunks.append(chunk)
    os.close(r)
    if timed_out:
        try:
            os.kill(pid, 9)
        except ProcessLookupError:
            pass
    os.waitpid(pid, 0)
    if timed_out:
        return {"kind": job.get("kind"), "seed": job.get("seed"), "run": job.get("run"),
                "harness_timeout": timeout}
    try:
        return json.loads(b"".join(chunks).decode())
    except ValueError:
        return {"kind": job.get("kind"), "seed": job.get("seed"), "run": job.get("run"),
                "harness_error": "child died without a result"}


def main(argv):
    mode, config_id = argv[1], argv[2]
    out = os.fdopen(os.dup(1), "w")
    devnull = os.open(os.devnull, os.O_WRONLY)
    os.dup2(devnull, 1)
    sys.stdout = open(os.devnull, "w")
    real_stderr = sys.stderr
    from . import runtime
    sys.stderr = sys.stdout  # logging handlers resolve their streams at import
    try:
        runtime.boot(config_id)
    finally:
        sys.stderr = real_stderr
    # pre-import the job runners so that forked children start warm
    from . import c08, tensor_model, registry_model  # noqa: F401
    try:
        from . import c19  # noqa: F401
    except ImportError:
        pass
    if mode == "oneshot":
        job = json.loads(sys.stdin.read())
        out.write(json.dumps(_safe_run(job), default=str) + "\n")
        out.flush()
        return 0
    out.write(json.dumps({"ready": True}) + "\n")
    out.flush()
    for line in sys.stdin:
        line = line.strip()
        if not line:
            continue
        job = json.loads(line)
        res = _in_child(job, float(job.get("timeout", 300)))
        out.write(json.dumps(res, default=str) + "\n")
        out.flush()
    return 0
