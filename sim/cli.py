import json
import os
import sys

from . import driver
from .driver import log


def _tier(args):
    tier = os.environ.get("VERIF_TIER", "quick")
    if "--tier" in args:
        tier = args[args.index("--tier") + 1]
    if tier not in ("quick", "thorough"):
        raise SystemExit(f"unknown tier {tier}")
    return tier


def _seed():
    try:
        return int(os.environ.get("VERIF_SEED", driver.DEFAULT_SEED))
    except ValueError:
        return driver.DEFAULT_SEED


def main(args):
    if not args:
        print(__doc__ or "usage: check C08|C19|replay|selftest-determinism|setup")
        return 2
    cmd = args[0]
    seed = _seed()
    if cmd == "setup":
        from . import host
        r = host.run_jobs([{"kind": "ping"}])[0]
        if r.get("harness_error"):
            log("setup failed: " + r["harness_error"])
            return 2
        log("setup ok: adcgen imported from /repo under the configuration seam; "
            f"hash seed {r['hashseed']}")
        return 0
    if cmd == "C08":
        from . import check_c08
        log(f"VERIF_SEED={seed} tier={_tier(args)} property=C08")
        return check_c08.run(_tier(args), seed)
    if cmd == "C19":
        from . import check_c19
        log(f"VERIF_SEED={seed} tier={_tier(args)} property=C19")
        return check_c19.run(_tier(args), seed)
    if cmd == "replay":
        v, res, rec = driver.replay_file(args[1])
        if v is None:
            if res.get("harness_error"):
                log("HARNESS-ERROR " + res["harness_error"][-2000:])
                return 2
            log(f"replay of {args[1]}: the recorded violation does not reproduce "
                f"(expected {json.dumps(rec['expected']['signature'])}; got "
                f"{[driver.sig_of(x) for x in res.get('violations', [])]})")
            return 0
        log(f"VIOLATION property={rec['property']} replay={args[1]}")
        log("  " + str(v.get("detail"))[:2000])
        return 1
    if cmd == "selftest-determinism":
        from . import selftest
        n = int(args[args.index("--n") + 1]) if "--n" in args else 200
        return selftest.determinism(seed, n)
    if cmd == "soak-text":
        from . import soak
        return soak.run(args[1:])
    if cmd == "mutants":
        from . import selftest
        return selftest.mutants(args[1:])
    print(f"unknown command {cmd}")
    return 2
