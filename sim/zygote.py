import os
import sys

if __name__ == "__main__":
    sys.path.insert(0, os.path.dirname(os.path.dirname(os.path.abspath(__file__))))
    from sim import zy
    sys.exit(zy.main(sys.argv))
