"""C08 check: index renaming is capture-free and yields the documented names."""
import itertools
import os
import time

from . import host, driver, c08
from .driver import log
from .seeds import derive, digest

PROP = "C08"


# ------------------------------------------------------------------------- directed schedules
def _expr_step(slot=0):
    """a fixed product touching many indices, targets i, a"""
    return {"op": "build", "slot": slot, "targets": ["i", "a"], "terms": [
        {"pref": [1, 2], "atoms": [["ast", "V", ["i", "j"], ["a", "b"], 0],
                                   ["amp", "t1", ["b", "c"], ["j", "k"], 0],
                                   ["amp", "X", ["c"], ["k"], 0]]},
        {"pref": [-1, 1], "atoms": [["ast", "f", ["i"], ["l"], 0],
                                    ["amp", "t2", ["a"], ["l"], 0],
                                    ["nst", "w", ["m", "m", "d"]], ["nst", "w", ["d"]]]}]}


def _big_expr_step(slot=0):
    return {"op": "build", "slot": slot, "targets": [], "terms": [
        {"pref": [1, 1], "atoms": [["ast", "V", ["i", "j"], ["k", "l"], 0],
                                   ["nst", "w", ["i", "j", "k"]], ["nst", "w", ["l", "m", "n"]],
                                   ["ast", "f", ["m"], ["n"], 0],
                                   ["ast", "d", ["o"], ["i"], 0], ["nst", "w", ["o"]]]}]}


def directed(default_params):
    """always-run schedules; each is also a regression replay"""
    out = []
    P = dict(default_params)
    # D1 pool rollover across generations with explicit requests for next-generation names
    out.append(("rollover", P, [
        {"op": "reg.generic", "kw": {"occ": 7}},
        {"op": "reg.get", "names": ["k4"], "spins": [""], "via": "get_indices"},
        {"op": "reg.generic", "kw": {"occ": 9}},
        {"op": "reg.get", "names": ["m6", "i7", "c3"], "spins": ["", "", ""],
         "via": "get_symbols"},
        {"op": "reg.generic", "kw": {"occ": 15, "virt": 9}},
        {"op": "reg.get", "names": ["k4", "m6", "i3"], "spins": ["", "", ""],
         "via": "get_indices"},
        {"op": "reg.generic", "kw": {"occ": 8, "virt": 8, "general": 9}},
        _expr_step(), {"op": "rename.gen", "slot": 0}, {"op": "rename.sc", "slot": 0},
    ]))
    # the same history issued alternately from two caller threads (never at the same time)
    name, pp, st0 = out[-1]
    out.append(("caller-threads", pp,
                [dict(st, thread=True) if n % 2 else dict(st) for n, st in enumerate(st0)] +
                [{"op": "reg.get", "names": ["i", "k4", "a"], "spins": ["", "", ""],
                  "via": "get_symbols", "thread": True},
                 {"op": "reg.generic", "kw": {"occ": 3, "virt_a": 2}, "thread": True},
                 {"op": "rename.sc", "slot": 0, "thread": True},
                 {"op": "rename.gen", "slot": 0}]))
    # D2 the same in spin-labelled pools
    out.append(("rollover-spin", dict(P, spin_mode=True), [
        {"op": "reg.generic", "kw": {"occ_a": 7, "virt_b": 3}},
        {"op": "reg.get", "names": ["k4", "k4", "a4"], "spins": ["a", "b", "b"],
         "via": "get_indices"},
        {"op": "reg.generic", "kw": {"occ_a": 9, "occ_b": 9, "virt_b": 9}},
        {"op": "reg.get", "names": ["m6", "i7"], "spins": ["a", "a"], "via": "get_indices_str"},
        {"op": "reg.generic", "kw": {"occ_a": 15, "occ": 3}},
        {"op": "reg.generic", "kw": {"occ_a": 2, "occ_b": 2, "occ": 2}},
    ]))
    # D3 deep generations: the pool reaches two- and three-digit generations, names of the
    # current (partly consumed) and of later generations are requested explicitly in between
    for G in (9, 10, 11, 12, 20, 30, 100):
        n = 7 * (G - 3) + 3   # generations 3..G exist, 4 names of generation G are pending
        nv = 8 * (G - 3) + 2
        g = str(G)
        out.append((f"deep-generation-{G}", P, [
            {"op": "reg.generic", "kw": {"occ": n, "virt": nv}},
            {"op": "reg.get", "names": ["m" + g, "o" + g, "k" + str(G + 1), "e" + g, "h" + g,
                                        "c" + str(G + 2)],
             "spins": [""] * 6, "via": "get_symbols"},
            {"op": "reg.generic", "kw": {"occ": 9, "virt": 11}},
            {"op": "reg.get", "names": ["m" + g, "k" + str(G + 1), "j" + str(G + 3)],
             "spins": [""] * 3, "via": "get_indices"},
            {"op": "reg.generic", "kw": {"occ": 15, "virt": 17}},
            _expr_step(), {"op": "rename.gen", "slot": 0},
        ]))
    # D3b wide terms: more contracted indices of one space than base letters, targets with
    # numbered names, with and without spin
    for sp, letters in (("occ", "ijklmno"), ("virt", "abcdefgh"), ("general", "pqrstuvw")):
        for spin in ("", "a"):
            def tk(n):
                return f"{n}:{spin}" if spin else n
            names = [ch + "3" for ch in letters] + [ch + "4" for ch in letters[:4]] + \
                [letters[1], letters[0] + "1"]
            toks = [tk(n) for n in names]
            atoms = [["nst", "w", [a, b]] for a, b in zip(toks, toks[1:] + toks[:1])]
            for targets in ([], [tk(letters[1]), tk(letters[0] + "1")]):
                out.append((f"wide-{sp}-{spin or 'nospin'}-{len(targets)}t",
                            dict(P, spin_mode=bool(spin)), [
                    {"op": "build", "slot": 0, "targets": targets,
                     "terms": [{"pref": [1, 1], "atoms": atoms}]},
                    {"op": "rename.sc", "slot": 0}, {"op": "rename.gen", "slot": 0},
                    {"op": "rename.sc", "slot": 0}, {"op": "rename.minimize", "slot": 0,
                                                      "pick": 3}]))
    # D4 cycles and chains in every insertion order of the dict
    shapes = {
        "3cycle": [["i", "j"], ["j", "k"], ["k", "i"]],
        "4cycle": [["i", "j"], ["j", "k"], ["k", "l"], ["l", "i"]],
        "chain3": [["i", "j"], ["j", "k"], ["k", "l"]],
        "chain+cycle": [["i", "j"], ["j", "i"], ["k", "l"], ["l", "m"]],
        "two2cycles": [["i", "j"], ["j", "i"], ["k", "l"], ["l", "k"]],
        "chain_into_cycle": [["m", "i"], ["i", "j"], ["j", "i"]],
        "many2one+chain": [["i", "k"], ["j", "k"], ["k", "l"]],
        "fan_out_chain": [["i", "j"], ["j", "k"], ["l", "j"]],
    }
    for name, pairs in shapes.items():
        steps = [_big_expr_step()]
        for perm in itertools.permutations(pairs):
            steps.append({"op": "rename.subs", "slot": 0, "pairs": [list(p) for p in perm]})
        out.append((f"maps-{name}", P, steps))
    steps = [_big_expr_step()]
    five = [["i", "j"], ["j", "k"], ["k", "l"], ["l", "m"], ["m", "i"]]
    for perm in itertools.permutations(five):
        steps.append({"op": "rename.subs", "slot": 0, "pairs": [list(p) for p in perm]})
    out.append(("maps-5cycle", P, steps))
    # permutation sequences: all ordered pairs / triples of transpositions over 4 indices
    steps = [_big_expr_step()]
    for a in range(0, 40, 3):
        for b in range(0, 40, 7):
            steps.append({"op": "rename.permute", "slot": 0,
                          "perms": [[0, a], [0, b], [0, a + b]]})
    out.append(("permute-seq", P, steps))
    # the same sequences written as Permutation objects / as a PermutationProduct, with a
    # transposition occurring twice and others in between (P_ij P_jk P_ij = P_ik)
    for pform in (1, 2):
        steps = [_big_expr_step()]
        for a in range(0, 40, 3):
            for b in range(1, 40, 7):
                steps.append({"op": "rename.permute", "slot": 0, "pform": pform,
                              "rep": (a + b) % 3 != 0,
                              "perms": [[0, a], [0, b], [0, a + b]][:2 + (a + b) % 2]})
        out.append((f"permute-forms-{pform}", P, steps))
    # Term-level operations on long-lived Term objects with in-place use of the results
    steps = [_expr_step(), _big_expr_step(1)]
    for k in range(0, 36):
        steps.append({"op": "rename.term", "slot": k % 2, "how": ["permute", "sc", "permute",
                                                                  "gen"][k % 4],
                      "pick": 7 * k + k // 4, "perms": [[k, 3 * k + 1], [k + 1, k]][:1 + k % 2]})
    out.append(("term-level", P, steps))
    # minimize_tensor_indices on tensors that carry an index more than once
    reps = [["j", "j"], ["j", "i", "j"], ["k", "k", "a"], ["j", "a", "j", "b"], ["k", "j", "k"],
            ["l", "k", "l", "k"], ["c", "b", "c"], ["k2", "j", "k2", "i"], ["q", "p", "q"],
            ["j:b", "i:a", "j:b"], ["m", "l", "k", "m", "l"]]
    for tg in ([], ["j"], ["i", "a"]):
        steps = []
        for n, r in enumerate(reps):
            steps.append({"op": "build", "slot": 0, "targets": [t for t in tg if t in r],
                          "terms": [{"pref": [1, 1], "atoms": [["nst", "w", r],
                                                               ["nst", "u", r[::-1]]]}]})
            steps.append({"op": "rename.minimize", "slot": 0, "pick": 0})
            steps.append({"op": "rename.minimize", "slot": 0, "pick": 1})
            steps.append({"op": "rename.sc", "slot": 0})
        out.append((f"minimize-repeats-{len(tg)}t", dict(P, spin_mode=True), steps))
    # every construction route of the Expr container for the same renamings
    steps = [_expr_step(), {"op": "build", "slot": 1, "targets": ["i", "a"], "terms": [
        {"pref": [1, 1], "atoms": [["ast", "V", ["i", "j"], ["a", "b"], 0],
                                   ["amp", "t1", ["b", "c"], ["j", "k"], 0],
                                   ["amp", "X", ["c"], ["k"], 0]]}]}]
    for route in range(7):
        for slot in (0, 1):
            steps += [{"op": "rename.sc", "slot": slot, "route": route},
                      {"op": "rename.gen", "slot": slot, "route": route},
                      {"op": "rename.copy", "slot": slot, "route": route, "how": "sc"},
                      {"op": "rename.permute", "slot": slot, "route": route,
                       "perms": [[0, 1], [1, 2]]}]
    out.append(("construction-routes", P, steps))
    # Einstein convention (no explicit targets) with squared objects
    steps = []
    sq = [
        [["pow", ["nst", "w", ["k", "l"]], 2]],
        [["pow", ["amp", "t1", ["c", "d"], ["k", "l"], 0], 2]],
        [["pow", ["nst", "w", ["k", "l"]], 2], ["nst", "u", ["i", "a"]]],
        [["pow", ["ast", "V", ["k", "l"], ["c", "d"], 0], 2], ["amp", "X", ["a"], ["i"], 0]],
        [["pow", ["nst", "w", ["k3", "c4"]], 3], ["nst", "w", ["k3", "c4"]]],
    ]
    for n, atoms in enumerate(sq):
        tg = ["i", "a"] if any(a[0] != "pow" for a in atoms) else []
        steps.append({"op": "build", "slot": 0, "targets": tg,
                      "terms": [{"pref": [1, 1], "atoms": atoms}]})
        for route in (6, 0):
            steps += [{"op": "rename.sc", "slot": 0, "route": route},
                      {"op": "rename.gen", "slot": 0, "route": route},
                      {"op": "rename.gen", "slot": 0, "route": route}]
    out.append(("einstein-powers", P, steps))
    # normal-ordered operator strings whose summed index sits on a creator and an annihilator
    # of the same string; Einstein convention and explicit targets, plain and spin-labelled
    for spin in (False, True):
        sfx = (lambda n, k: f"{n}:{'ab'[k % 2]}") if spin else (lambda n, k: n)
        steps = []
        nos = [
            ([["no", [["c", sfx("q", 0)], ["a", sfx("q", 0)]]]], []),
            ([["nst", "X", [sfx("q", 0), sfx("q", 0)]],
              ["no", [["c", sfx("r", 0)], ["a", sfx("r", 0)]]]], []),
            ([["ast", "f", [sfx("k", 0)], [sfx("c", 0)], 0],
              ["no", [["c", sfx("k", 0)], ["a", sfx("c", 0)]]]], []),
            ([["nst", "w", [sfx("i", 0), sfx("a", 0)]],
              ["no", [["c", sfx("l", 1)], ["a", sfx("l", 1)], ["c", sfx("d", 1)],
                      ["a", sfx("d", 1)]]]], [sfx("i", 0), sfx("a", 0)]),
            ([["amp", "Y", [sfx("b", 0)], [sfx("j", 0)], 0],
              ["no", [["c", sfx("b", 0)], ["a", sfx("j", 0)], ["c", sfx("m", 1)],
                      ["a", sfx("m", 1)]]]], []),
        ]
        for atoms, tg in nos:
            steps.append({"op": "build", "slot": 0, "targets": tg,
                          "terms": [{"pref": [1, 1], "atoms": atoms}]})
            for route in (6, 0, 3):
                steps += [{"op": "rename.sc", "slot": 0, "route": route, "keep": True},
                          {"op": "rename.gen", "slot": 0, "route": route, "keep": True}]
        out.append((f"operator-strings-{'spin' if spin else 'plain'}",
                    dict(P, spin_mode=spin), steps))
    # unexpanded input: a sum multiplied by common factors, Einstein convention and provided
    # targets, Expr-level renamings (which have to expand first)
    steps = []
    sums = [
        ([{"pref": [1, 1], "atoms": [["nst", "w", ["k"]]]}, {"pref": [1, 1], "atoms": [["nst", "u", ["k"]]]}],
         [["nst", "w", ["i", "i"]]], ["k"]),
        ([{"pref": [1, 1], "atoms": [["nst", "w", ["i", "a"]]]},
          {"pref": [-1, 2], "atoms": [["nst", "u", ["i", "a"]]]}],
         [["ast", "V", ["j", "k"], ["b", "c"], 0], ["amp", "t1", ["b", "c"], ["j", "k"], 0]], ["i", "a"]),
        ([{"pref": [1, 1], "atoms": [["amp", "X", ["a"], ["j"], 0], ["ast", "f", ["j"], ["i"], 0]]},
          {"pref": [2, 1], "atoms": [["amp", "Y", ["a"], ["i"], 0]]}],
         [["nst", "w", ["k", "k"]], ["nst", "u", ["l", "l"]]], ["i", "a"]),
    ]
    for terms, fac, tg in sums:
        steps.append({"op": "build", "slot": 0, "targets": tg, "terms": terms, "factor": fac})
        for route in (6, 0, 2, 4):
            steps += [{"op": "rename.gen", "slot": 0, "route": route, "keep": True},
                      {"op": "rename.sc", "slot": 0, "route": route, "keep": True},
                      {"op": "rename.copy", "slot": 0, "route": route, "how": "gen"}]
    out.append(("unexpanded-input", P, steps))
    # brackets nested two levels deep:  W_j (A_kj + B_l (C_lkj + D_lkj)),  with provided
    # targets and under the Einstein convention
    steps = []
    nested = [
        ([{"pref": [1, 1], "atoms": [["nst", "A", ["k", "j"]]]},
          {"pref": [1, 1], "atoms": [["nst", "C", ["l", "k", "j"]]]},
          {"pref": [1, 1], "atoms": [["nst", "D", ["l", "k", "j"]]]}],
         [["nst", "W", ["j"]], ["nst", "B", ["l"]]], ["k"]),
        ([{"pref": [1, 1], "atoms": [["amp", "X", ["a"], ["i"], 0]]},
          {"pref": [1, 2], "atoms": [["amp", "Y", ["a", "c"], ["i", "m"], 0]]},
          {"pref": [-1, 1], "atoms": [["amp", "t1", ["a", "c"], ["i", "m"], 0]]},
          {"pref": [3, 1], "atoms": [["ast", "V", ["a", "c"], ["i", "m"], 0]]}],
         [["nst", "w", ["l", "l"]], ["ast", "f", ["m"], ["c"], 0]], ["i", "a"]),
    ]
    for terms, fac, tg in nested:
        steps.append({"op": "build", "slot": 0, "targets": tg, "terms": terms, "factor": fac,
                      "nest": 1})
        for route in (6, 0, 2, 4):
            steps += [{"op": "rename.gen", "slot": 0, "route": route, "keep": True},
                      {"op": "rename.sc", "slot": 0, "route": route, "keep": True},
                      {"op": "rename.copy", "slot": 0, "route": route, "how": "gen"}]
    out.append(("nested-input", P, steps))
    # bookkeeping steps of the container before the renaming, on containers derived from it
    steps = []
    books = [
        ([{"pref": [1, 1], "atoms": [["ast", "f", ["j"], ["k"], 0], ["amp", "Y", ["a"], ["k"], 0]]}],
         ["j", "a"]),
        ([{"pref": [1, 1], "atoms": [["ast", "f", ["k"], ["l"], 0],
                                     ["amp", "t1", ["a", "b"], ["j", "l"], 0]]},
          {"pref": [-1, 2], "atoms": [["ast", "f", ["c"], ["b"], 0],
                                      ["amp", "t1", ["a", "c"], ["j", "k"], 0]]}],
         ["j", "k", "a", "b"]),
        ([{"pref": [1, 2], "atoms": [["ast", "V", ["j", "k"], ["b", "c"], 0],
                                     ["denom", [["b", 1], ["c", 1], ["j", -1], ["k", -1]], 1],
                                     ["amp", "Y", ["b"], ["j"], 0], ["nst", "w", ["l", "l"]]]}],
         ["k", "c"]),
    ]
    for terms, tg in books:
        steps.append({"op": "build", "slot": 0, "targets": tg, "terms": terms})
        for pre in ("diag_fock", "block_diag", "symbolic", "rename_tensor", "expand"):
            for n, derive in enumerate(("copy", "mul", "add", "term", "none")):
                for route in (6, 0):
                    steps.append({"op": "rename.after", "slot": 0, "pre": pre, "derive": derive,
                                  "how": ("sc", "gen")[(n + route) % 2], "route": route})
    out.append(("after-bookkeeping", P, steps))
    # one request mixing indices with and without spin, the spin at every position
    steps = []
    for names in (["i", "j"], ["a", "b", "c"], ["k3", "l3"], ["p", "i", "a"]):
        for pattern in itertools.product(["", "a", "b"], repeat=len(names)):
            for via in ("get_symbols", "get_indices"):
                steps.append({"op": "reg.get", "names": names, "spins": list(pattern),
                              "via": via})
    out.append(("mixed-spin-positions", dict(P, spin_mode=True), steps))
    # the same contracted indices with target indices of the same names but other spins
    steps = []
    for base_t, contr in ((["i"], ["j:a"]), (["i", "j"], ["k:a"]), (["a", "i"], ["k:a", "c:b"]),
                          (["i", "j"], ["k:a", "l:b", "c:a"])):
        for spins in itertools.product("ab", repeat=len(base_t)):
            tg = [f"{n}:{sp}" for n, sp in zip(base_t, spins)]
            allidx = tg + contr
            atoms = [["nst", "w", allidx], ["nst", "u", contr + contr[:1]]]
            steps.append({"op": "build", "slot": 0, "targets": tg,
                          "terms": [{"pref": [1, 1], "atoms": atoms}]})
            steps += [{"op": "rename.sc", "slot": 0}, {"op": "rename.term", "slot": 0,
                                                        "how": "sc", "pick": 0, "perms": []}]
    out.append(("spin-target-variants", dict(P, spin_mode=True), steps))
    # D5 expand_itmd with targets equal to the definition's own contracted names
    steps = []
    for pick in range(0, 22):
        steps.append({"op": "lib", "which": "expand_itmd", "pick": pick})
    out.append(("itmd-capture", P, steps))
    return out


ABORT_TARGETS = [
    ("generic-pristine", [], {"op": "reg.generic", "kw": {"occ": 2, "virt": 2}}),
    ("generic-partial", [{"op": "reg.generic", "kw": {"occ": 3, "general": 2}}],
     {"op": "reg.generic", "kw": {"occ": 6, "general": 9}}),
    ("explicit-pooled", [{"op": "reg.generic", "kw": {"occ": 1, "virt": 1}}],
     {"op": "reg.get", "names": ["k3", "c3", "i", "m3"], "spins": ["", "", "", ""],
      "via": "get_indices"}),
    ("generic-spin", [{"op": "reg.generic", "kw": {"occ_a": 1}}],
     {"op": "reg.generic", "kw": {"occ_a": 8, "virt_b": 2}}),
    ("psi", [], {"op": "lib", "which": "psi", "pick": 3}),
    ("rename-gen", [_expr_step()], {"op": "rename.gen", "slot": 0}),
    ("expand-itmd", [], {"op": "lib", "which": "expand_itmd", "pick": 3}),
    ("rename-sc-spin", [{"op": "build", "slot": 0, "targets": ["i:a"], "terms": [
        {"pref": [1, 1], "atoms": [["nst", "w", ["i:a", "k:a", "l:b", "c:a"]],
                                   ["nst", "u", ["k:a", "l:b", "c:a", "d:b", "d:b"]]]}]}],
     {"op": "rename.sc", "slot": 0}),
    ("rename-sc-wide", [{"op": "build", "slot": 0, "targets": ["j", "i1"], "terms": [
        {"pref": [1, 1], "atoms": [["nst", "w", ["i3", "j3", "k3", "l3", "m3"]],
                                   ["nst", "w", ["n3", "o3", "i4", "j4", "j", "i1"]],
                                   ["nst", "u", ["i3", "j3", "k3", "l3", "m3", "n3", "o3", "i4",
                                                 "j4"]]]}]}],
     {"op": "rename.sc", "slot": 0}),
    ("minimize-spin", [{"op": "build", "slot": 0, "targets": ["i:a"], "terms": [
        {"pref": [1, 1], "atoms": [["nst", "w", ["i:a", "k:a", "l:b", "c:a"]],
                                   ["nst", "u", ["k:a", "l:b", "c:a"]]]}]}],
     {"op": "rename.minimize", "slot": 0, "pick": 1}),
]


def abort_sweep_jobs(params, mode="state", stride_other=1):
    """exhaustive over every eligible event of a few index-consuming operations: first a
    counting pass (abort index beyond the end), then one run per event"""
    probes = []
    for name, pre, target in ABORT_TARGETS:
        st = dict(target, abort={"kind": "kbi", "k": 10 ** 9})
        probes.append({"kind": "c08", "seed": 0, "run": f"sweep-probe-{name}",
                       "params": dict(params, abort_mode=mode), "steps": pre + [st]})
    res = host.run_jobs(probes)
    jobs = []
    for (name, pre, target), r in zip(ABORT_TARGETS, res):
        if r.get("harness_error") or not r["stats"]["abort_n"]:
            raise RuntimeError(f"abort sweep probe {name} failed: {r.get('harness_error')}")
        n = r["stats"]["abort_n"][0]
        registry_target = target["op"].startswith("reg.") or name.startswith("rename-sc-") \
            or name.startswith("minimize-")
        stride = 1 if (registry_target and mode == "state") else stride_other
        # after the cut the same operation is requested again, uninterrupted
        post = [dict(target)] if target["op"].startswith("rename.") else []
        for k in range(1, n + 1, stride):
            for kind in (("kbi",) if k % 3 else ("kbi", "mem")):
                st = dict(target, abort={"kind": kind, "k": k})
                jobs.append({"kind": "c08", "seed": 0, "run": f"sweep-{name}-{k}-{kind}",
                             "params": dict(params, abort_mode=mode),
                             "steps": pre + [st] + post})
    return jobs


DEFAULT_PARAMS = {"spin_mode": False, "n_occ": 2, "n_virt": 2, "dummy_base": 5000000,
                  "dummy_count": 0, "heap_skew": 0, "log_level": "ERROR", "clock_step": 0.001,
                  "singles": False, "variant": "mp", "abort_mode": "state",
                  "faultfree": False, "model_seed": 12345}


# ------------------------------------------------------------------------- main
def run(tier, seed):
    t0 = time.time()
    thorough = tier == "thorough"
    budget = float(os.environ.get("VERIF_BUDGET_S", 1100 if thorough else 45))
    pool = driver.env_pool(seed, 48 if thorough else 16, thorough)
    rng = derive(seed, "c08", "host")
    all_jobs, all_results = [], []
    harness = []

    def submit(jobs):
        res = host.run_jobs(jobs)
        all_jobs.extend(jobs)
        all_results.extend(res)
        return res

    # 1. directed schedules + exhaustive abort sweep
    djobs = [{"kind": "c08", "seed": seed, "run": f"directed-{name}", "params": p, "steps": s,
              "timeout": 600}
             for name, p, s in directed(DEFAULT_PARAMS)]
    djobs += abort_sweep_jobs(DEFAULT_PARAMS, "state", 1 if thorough else 7)
    if thorough:
        djobs += [dict(j, run=j["run"] + "-global") for j in
                  abort_sweep_jobs(DEFAULT_PARAMS, "global", 3)]
    n_directed = len(djobs)
    submit(djobs)
    log(f"[C08] directed schedules + abort sweep: {n_directed} runs, "
        f"{time.time() - t0:.0f}s")

    # 2. seeded runs
    batch = 640 if thorough else 320
    run_no = 0
    while True:
        jobs = []
        for _ in range(batch):
            env = pool[rng.randrange(len(pool))]
            params, steps = c08.generate(seed, run_no, tier)
            jobs.append({"kind": "c08", "seed": seed, "run": run_no, "tier": tier,
                         "env": env, "params": params, "steps": steps,
                         "timeout": 600 if thorough else 90})
            run_no += 1
        submit(jobs)
        el = time.time() - t0
        log(f"[C08] {run_no} seeded runs, {el:.0f}s")
        if el > budget or (not thorough and run_no >= 960):
            break

    n_live = driver.triage_timeouts(all_jobs, all_results)
    if n_live:
        log(f"[{PROP}] {n_live} runs do not terminate (liveness)")
    harness = driver.harness_failures(all_results)
    if harness:
        for h in harness[:5]:
            log("HARNESS-ERROR " + str(h)[-1500:])
        return finish(tier, seed, all_jobs, all_results, t0, n_directed, [], 2, None)

    sc = [x for r in all_results for x in (r.get("selfcheck") or [])]
    if sc:
        log(f"HARNESS-ERROR oracle self-check failed ({len(sc)}): {sc[0][:1200]}")
        return finish(tier, seed, all_jobs, all_results, t0, n_directed, [], 2, None)

    # 3. determinism tripwire (fresh, non-forked interpreters)
    trip = driver.tripwire(all_jobs, all_results, seed)
    if trip["mismatches"]:
        log(f"HARNESS-ERROR replay digests differ between forked and fresh interpreters: "
            f"{trip['mismatches'][:3]}")
        return finish(tier, seed, all_jobs, all_results, t0, n_directed, [], 2, trip)

    # 4. violations
    known = driver.load_known()
    reported, seen_sigs, exit_code = [], {}, 0
    for job, res in zip(all_jobs, all_results):
        for v in res["violations"]:
            sig = driver.sig_of(v)
            key = digest(sig, 6)
            k = driver.match_known(known, PROP, sig)
            if k is not None:
                if key not in seen_sigs:
                    log(f"KNOWN-FINDING: property={PROP} {k.get('what')}")
                    seen_sigs[key] = {"signature": sig, "count": 0, "known": True}
                seen_sigs[key]["count"] += 1
                continue
            if key in seen_sigs:
                seen_sigs[key]["count"] += 1
                continue
            seen_sigs[key] = {"signature": sig, "count": 1, "known": False}
            if len(reported) < 4:
                path = driver.report_violation(PROP, job, res, v)
                if path is None:
                    exit_code = max(exit_code, 2)
                else:
                    reported.append({"replay": path, "signature": sig})
                    exit_code = 1
            else:
                log(f"VIOLATION property={PROP} replay=none (further distinct signature, not "
                    f"minimised) {sig}")
                exit_code = 1
    return finish(tier, seed, all_jobs, all_results, t0, n_directed, reported, exit_code, trip,
                  seen_sigs)


def finish(tier, seed, jobs, results, t0, n_directed, reported, exit_code, trip, sigs=None):
    ok = [r for r in results if r and r.get("stats")]
    probes, model, ops = {}, {}, {}
    fault_kinds, fault_sites, fault_missed = {}, {}, 0
    sched = set()
    nontrivial = set()
    reg_states = set()
    clock_lo, clock_hi, clock_calls = None, None, 0
    n_steps = 0
    faultfree_runs = 0
    for r in ok:
        st = r["stats"]
        driver.merge_counts(probes, st["probes"])
        driver.merge_counts(model, st["model"])
        driver.merge_counts(ops, st["ops"])
        fault_missed += st["faults_missed"]
        for f in st["faults_fired"]:
            fault_kinds["abort-" + f["kind"]] = fault_kinds.get("abort-" + f["kind"], 0) + 1
            site = f"{f['file']}:{f['func']}"
            fault_sites[site] = fault_sites.get(site, 0) + 1
        sched.add(st["schedule_digest"])
        checks = st["model"]["R1"] + st["model"]["R2"] + st["probes"]["value_checked"]
        if r["n_steps"] >= 3 and checks >= 1:
            nontrivial.add(st["schedule_digest"])
        reg_states.update(st["reg_states"])
        c = st["clock"]
        clock_calls += c["calls"]
        clock_lo = c["lo"] if clock_lo is None else min(clock_lo, c["lo"])
        clock_hi = c["hi"] if clock_hi is None else max(clock_hi, c["hi"])
        n_steps += r["n_steps"]
        if r["params"].get("faultfree"):
            faultfree_runs += 1
    for k in ("reg.bad", "sympy.clear_cache", "dummy.skew", "clock.jump"):
        if ops.get(k):
            fault_kinds[{"reg.bad": "reject", "sympy.clear_cache": "cache-loss",
                         "dummy.skew": "dummy-skew", "clock.jump": "clock-jump"}[k]] = ops[k]
    envs = {}
    for j in jobs:
        e = host.env_key(j.get("env"))
        envs[str(e)] = envs.get(str(e), 0) + 1
    wall = time.time() - t0
    samples = []
    for r in ok:
        if isinstance(r.get("run"), int) and r["n_steps"] >= 5 and len(samples) < 3:
            samples.append({"seed": r["seed"], "run": r["run"], "params": r["params"],
                            "steps": r["steps"][:25], "n_steps": r["n_steps"],
                            "digest": r["digest"]})
    zero = [k for k, v in probes.items() if v == 0 and k != "value_not_evaluable"]
    coverage = {
        "evaluations": len(ok),
        "distinct_nontrivial": len(nontrivial),
        "rule": "one evaluation = one simulated session (fresh process image forked from a "
                "zygote) executing one schedule; directed schedules and the exhaustive abort "
                "sweep are explicit, the rest are generated from (VERIF_SEED, run number). "
                "distinct = distinct schedule digests; non-trivial = at least 3 steps and at "
                "least one registry or value comparison executed",
        "samples": samples,
        "directed_runs": n_directed,
        "seeded_runs": len(ok) - n_directed,
        "fault_free_runs": faultfree_runs,
        "steps_executed": n_steps,
        "runs_per_hour": round(len(ok) / wall * 3600),
        "operations": ops,
        "oracle_comparisons": {
            "R1_freshness": model.get("R1", 0), "R2_identity": model.get("R2", 0),
            "R3_shape": model.get("R3", 0), "rejected_requests": model.get("rejected", 0),
            "value_fingerprints": probes.get("value_checked", 0),
            "wavefunction_pairs_disjoint": probes.get("psi_pairs", 0)},
        "registry_calls_observed": {"get_indices": model.get("get_indices", 0),
                                    "get_generic_indices": model.get("get_generic_indices", 0),
                                    "_gen_generic_idx": model.get("gen_generic", 0)},
        "faults_fired": fault_kinds,
        "fault_sites": dict(sorted(fault_sites.items(), key=lambda kv: -kv[1])[:25]),
        "faults_configured_but_not_fired": fault_missed,
        "latent_pool_states_R4": model.get("R4_latent", 0),
        "reach_probes": probes,
        "probes_at_zero": zero,
        "distinct_registry_states": len(reg_states),
        "environments": envs,
        "simulated_clock": {"calls": clock_calls, "min": clock_lo, "max": clock_hi,
                            "note": "no result depends on time; the clock seam only proves "
                                    "that"},
        "components": driver.REAL_STUB,
        "determinism_tripwire": trip,
        "violation_signatures": list((sigs or {}).values()),
        "replays": reported,
        "explanation": "deterministic simulation of the process-global index registry and of "
                       "renaming operations under seeded histories, hash seeds, Dummy bases, "
                       "cache sizes and injected aborts (KeyboardInterrupt / MemoryError at "
                       "line events inside state-writing adcgen functions); oracles: registry "
                       "model R1-R5, xreplace as simultaneous substitution, sequential "
                       "transpositions, documented lowest-name order, exact tensor model over "
                       "F_p" + (f"; probes at zero: {zero}" if zero else ""),
    }
    assumptions = [
        "a name already handed out as a generic index is never afterwards used as a *target* "
        "index (DESIGN 5.2); explicit requests for pooled names before they are handed out "
        "are generated freely",
        "KeyboardInterrupt / MemoryError arrive between source lines (sys.monitoring LINE "
        "events), not between bytecodes of one line",
        "value equality is equality of fingerprints in the tensor model over F_p "
        "(2-3 orbitals per space, 16 target assignments)",
        "sampling, not proof: the directed part and the abort sweep are exhaustive only over "
        "what they enumerate",
    ]
    nviol = sum(len(r.get("violations") or []) for r in results if r)
    driver.write_evidence(PROP, tier, seed, coverage, wall, nviol, assumptions)
    log(f"[C08] {len(ok)} runs, {n_steps} steps, {sum(fault_kinds.values())} faults fired, "
        f"{nviol} violation records, exit {exit_code}, {wall:.0f}s")
    return exit_code
