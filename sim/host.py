"""Host side: starts zygotes (one fresh interpreter per environment tuple), distributes
jobs, collects results.  The host never influences a run: a job is a pure function of
its JSON and the code under test."""
import json
import os
import subprocess
import sys
import threading
from concurrent.futures import ThreadPoolExecutor

PY = os.environ.get("VERIF_PYTHON", "/venv/bin/python")
HERE = os.path.dirname(os.path.abspath(__file__))
ZYGOTE = os.path.join(HERE, "zygote.py")
DEFAULT_ENV = {"hashseed": 0, "config": "default", "cache_size": 1000, "use_cache": "yes"}


def env_key(env):
    e = dict(DEFAULT_ENV)
    e.update(env or {})
    return (int(e["hashseed"]), e["config"], e["cache_size"], e["use_cache"])


def _environ(key):
    hashseed, config, cache_size, use_cache = key
    env = {"PATH": os.environ.get("PATH", "/usr/bin:/bin"),
           "PYTHONHASHSEED": str(hashseed),
           "PYTHONDONTWRITEBYTECODE": "1",
           "SYMPY_USE_CACHE": str(use_cache),
           "SYMPY_CACHE_SIZE": str(cache_size),
           "VERIF_REPO": os.environ.get("VERIF_REPO", "/repo")}
    return env


class Zygote:
    def __init__(self, key):
        self.key = key
        self.proc = subprocess.Popen(
            [PY, ZYGOTE, "serve", key[1]], stdin=subprocess.PIPE, stdout=subprocess.PIPE,
            env=_environ(key), text=True, bufsize=1)
        line = self.proc.stdout.readline()
        if not line or not json.loads(line).get("ready"):
            raise RuntimeError(f"zygote {key} failed to start: {line!r}")

    def run(self, job):
        self.proc.stdin.write(json.dumps(job) + "\n")
        self.proc.stdin.flush()
        line = self.proc.stdout.readline()
        if not line:
            raise RuntimeError(f"zygote {self.key} died")
        return json.loads(line)

    def close(self):
        try:
            self.proc.stdin.close()
            self.proc.wait(timeout=10)
        except Exception:  # noqa: BLE001
            self.proc.kill()


def oneshot(job):
    """run a job in a fresh, non-forked interpreter (real ASLR, own import)"""
    key = env_key(job.get("env"))
    p = subprocess.run([PY, ZYGOTE, "oneshot", key[1]], input=json.dumps(job),
                       capture_output=True, text=True, env=_environ(key),
                       timeout=float(job.get("timeout", 300)) + 120)
    lines = [ln for ln in p.stdout.splitlines() if ln.strip()]
    if not lines:
        return {"harness_error": f"oneshot produced no output: {p.stderr[-2000:]}"}
    return json.loads(lines[-1])


def run_jobs(jobs, workers=None, progress=None, group_size=None):
    """execute jobs (dicts with an optional 'env'); returns results in job order"""
    workers = workers or min(16, os.cpu_count() or 4)
    groups = {}
    for i, job in enumerate(jobs):
        groups.setdefault(env_key(job.get("env")), []).append(i)
    # split large groups so that all workers stay busy; strided so that neighbouring
    # (similarly expensive) jobs land in different units
    n_jobs = len(jobs)
    units = []
    for key, idxs in sorted(groups.items()):
        if group_size:
            n_units = -(-len(idxs) // group_size)
        else:
            n_units = max(1, min(len(idxs), round(len(idxs) / n_jobs * workers * 3)))
        for u in range(n_units):
            part = idxs[u::n_units]
            if part:
                units.append((key, part))
    units.sort(key=lambda u: -len(u[1]))
    # heavy units first
    results = [None] * n_jobs
    lock = threading.Lock()
    done = [0]

    def work(unit):
        key, idxs = unit
        try:
            z = Zygote(key)
        except Exception as exc:  # noqa: BLE001
            for i in idxs:
                results[i] = {"harness_error": f"zygote start failed: {exc}"}
            return
        try:
            for i in idxs:
                try:
                    results[i] = z.run(jobs[i])
                except Exception as exc:  # noqa: BLE001
                    # the zygote itself died (killed, out of memory): restart it and
                    # retry the job once before giving up
                    z.close()
                    z = Zygote(key)
                    try:
                        results[i] = z.run(jobs[i])
                    except Exception as exc2:  # noqa: BLE001
                        results[i] = {"harness_error": f"zygote failure: {exc}; {exc2}"}
                        z.close()
                        z = Zygote(key)
                with lock:
                    done[0] += 1
                    if progress:
                        progress(done[0], n_jobs)
        finally:
            z.close()

    with ThreadPoolExecutor(max_workers=workers) as ex:
        list(ex.map(work, units))
    return results


if __name__ == "__main__":
    print(json.dumps(run_jobs([{"kind": "ping", "env": {"hashseed": int(a)}}
                               for a in sys.argv[1:] or ["0"]]), indent=1))
