"""Exact tensor model over a prime field: the *value* oracle (DESIGN §4.2).

Independent of adcgen: reads only class names and ``args`` of the sympy objects.
An expression is evaluated for explicit target indices (never Einstein counting):
every index of a term that is not a target is summed over its orbital range.
Tensor entries are a keyed hash of (model seed, class, default tensor name, canonical
orbital tuple), so two sessions that never communicate assign equal values to equal
entries.  Declared symmetries (antisymmetric / symmetric within upper and lower,
bra-ket 0/+1/-1) are imposed by the model itself.
"""
import hashlib
import itertools

# 61-bit prime, p = 3 (mod 4), 2,3,5,7,11,13 are quadratic residues
P = 2305843009213682039


class NotEvaluable(Exception):
    """Expression contains objects without a value in the model (operators, ...)."""


def G(*key) -> int:
    h = hashlib.blake2b(repr(key).encode(), digest_size=8).digest()
    return (int.from_bytes(h, "big") % (P - 1)) + 1


def _sort_sign(t):
    """sorted tuple and sign of the sorting permutation; sign 0 on repetition."""
    t = list(t)
    n = len(t)
    if n < 2:
        return tuple(t), 1
    if len(set(t)) != n:
        return None, 0
    sign = 1
    for i in range(n):
        for j in range(n - 1 - i):
            if t[j] > t[j + 1]:
                t[j], t[j + 1] = t[j + 1], t[j]
                sign = -sign
    return tuple(t), sign


_SMALL_PRIMES = (2, 3, 5, 7, 11, 13)


def _sqrt_int(n: int) -> int:
    if n <= 0:
        raise NotEvaluable(f"sqrt of {n}")
    res = 1
    for q in _SMALL_PRIMES:
        e = 0
        while n % q == 0:
            n //= q
            e += 1
        res = res * pow(q, e // 2, P) % P
        if e % 2:
            res = res * pow(q, (P + 1) // 4, P) % P
    if n != 1:
        r = int(round(n ** 0.5))
        if r * r != n:
            raise NotEvaluable(f"sqrt with large prime factor {n}")
        res = res * r % P
    return res


class Model:
    def __init__(self, seed: int, n_occ: int = 2, n_virt: int = 2, name_map=None):
        self.seed = seed
        self.n_occ = n_occ
        self.n_virt = n_virt
        # maps a configured tensor name back to the default one (H3)
        self.name_map = name_map or (lambda n: n)
        self._cache = {}

    # ---------------------------------------------------------------- ranges
    def orbitals(self, idx) -> tuple:
        """orbital range of an index.  Each space has a universe of four orbitals; an index
        without spin label ranges over the first n of them (n = n_occ / n_virt), an alpha
        index over the first two, a beta index over the last two (alpha and beta are
        disjoint, as the library assumes; every labelled index still has two values, so
        that index wirings remain distinguishable)."""
        space, spin = _space_spin(idx)

        def part(base, n):
            uni = list(range(base, base + 4))
            if not spin:
                return uni[:n]
            return uni[:2] if spin == "a" else uni[2:]
        if space == "occ":
            return tuple(part(0, self.n_occ))
        if space == "virt":
            return tuple(part(4, self.n_virt))
        return tuple(part(0, self.n_occ) + part(4, self.n_virt))

    # ---------------------------------------------------------------- atoms
    def _num(self, x) -> int:
        if x.is_Integer:
            return int(x) % P
        if x.is_Rational:
            return int(x.p) * pow(int(x.q), -1, P) % P
        if x.is_Float:
            from sympy import Rational
            r = Rational(str(x))
            if r.q < 10 ** 6:
                return int(r.p) * pow(int(r.q), -1, P) % P
        raise NotEvaluable(f"number {x!r}")

    def _tensor_fn(self, obj):
        """returns (fn(asg)->int, indices) for a tensor-like atom"""
        cls = type(obj).__name__
        if cls == "KroneckerDelta":
            a, b = obj.args
            return (lambda asg, a=a, b=b: 1 if asg[a] == asg[b] else 0), (a, b)
        if cls == "NonSymmetricTensor":
            name = self.name_map(obj.args[0].name)
            idx = tuple(obj.args[1].args)
            seed = self.seed

            def fn(asg):
                return G(seed, "N", name, tuple(asg[i] for i in idx))
            return fn, idx
        if cls in ("AntiSymmetricTensor", "Amplitude", "SymmetricTensor"):
            name = self.name_map(obj.args[0].name)
            upper = tuple(obj.args[1].args)
            lower = tuple(obj.args[2].args)
            bks = int(obj.args[3])
            anti = cls != "SymmetricTensor"
            seed = self.seed

            def fn(asg):
                u = tuple(asg[i] for i in upper)
                lo = tuple(asg[i] for i in lower)
                if anti:
                    u, su = _sort_sign(u)
                    if not su:
                        return 0
                    lo, sl = _sort_sign(lo)
                    if not sl:
                        return 0
                    sign = su * sl
                else:
                    u = tuple(sorted(u))
                    lo = tuple(sorted(lo))
                    sign = 1
                if bks != 0:
                    if u == lo:
                        if bks == -1:
                            return 0
                    elif lo < u:
                        u, lo = lo, u
                        sign *= bks
                return sign * G(seed, cls, name, u, lo) % P
            return fn, upper + lower
        raise NotEvaluable(f"object of class {cls}")

    def _compile(self, e):
        """compile a sympy (sub)expression to (fn(asg)->int mod P, tuple of indices)"""
        if e.is_Number:
            v = self._num(e)
            return (lambda asg, v=v: v), ()
        cls = type(e).__name__
        if cls == "Mul":
            parts = [self._compile(a) for a in e.args]
            fns = [p[0] for p in parts]

            def fn(asg):
                r = 1
                for f in fns:
                    r = r * f(asg) % P
                    if not r:
                        return 0
                return r
            return fn, tuple(i for p in parts for i in p[1])
        if cls == "Add":
            parts = [self._compile(a) for a in e.args]
            fns = [p[0] for p in parts]
            return (lambda asg: sum(f(asg) for f in fns) % P), \
                tuple(i for p in parts for i in p[1])
        if cls == "Pow":
            base, ex = e.args
            if base.is_Number:
                if ex.is_Rational and not ex.is_Integer and int(ex.q) == 2 \
                        and base.is_Rational:
                    num = _sqrt_int(int(base.p))
                    den = _sqrt_int(int(base.q))
                    v = pow(num * pow(den, -1, P) % P, int(ex.p), P)
                    return (lambda asg, v=v: v), ()
                raise NotEvaluable(f"power {e!r}")
            if not ex.is_Integer:
                raise NotEvaluable(f"exponent {ex!r}")
            n = int(ex)
            bf, bidx = self._compile(base)

            def fn(asg):
                b = bf(asg)
                if n < 0 and b == 0:
                    raise ZeroDivisionError
                return pow(b, n, P)
            return fn, bidx
        if cls in ("Symbol",):
            v = G(self.seed, "S", self.name_map(e.name))
            return (lambda asg, v=v: v), ()
        if cls in ("Index", "Dummy"):
            raise NotEvaluable("bare index")
        return self._tensor_fn(e)

    # ---------------------------------------------------------------- terms
    def _term_factors(self, term):
        args = term.args if type(term).__name__ == "Mul" else (term,)
        out = []
        for a in args:
            fn, idx = self._compile(a)
            out.append((fn, frozenset(idx)))
        return out

    def _sum_term(self, factors, targets_asg, sum_idx):
        """sum over sum_idx of prod(factors) with early evaluation + zero pruning"""
        # order summed indices: those of the first factors first
        order = []
        seen = set(targets_asg)
        for _, fi in factors:
            for i in sorted(fi - seen, key=_idx_key):
                if i not in seen:
                    seen.add(i)
                    order.append(i)
        for i in sum_idx:
            if i not in seen:
                seen.add(i)
                order.append(i)
        assigned = set(targets_asg)
        ready0 = [f for f, fi in factors if fi <= assigned]
        remaining = [(f, fi) for f, fi in factors if not fi <= assigned]
        levels = []
        for i in order:
            assigned.add(i)
            now = [f for f, fi in remaining if fi <= assigned]
            remaining = [(f, fi) for f, fi in remaining if not fi <= assigned]
            levels.append((i, self.orbitals(i), now))
        assert not remaining
        asg = dict(targets_asg)
        acc0 = 1
        for f in ready0:
            acc0 = acc0 * f(asg) % P
        if not acc0:
            return 0
        nlev = len(levels)

        def rec(d, acc):
            if d == nlev:
                return acc
            i, orbs, fns = levels[d]
            tot = 0
            for o in orbs:
                asg[i] = o
                a = acc
                for f in fns:
                    a = a * f(asg) % P
                    if not a:
                        break
                if a:
                    tot += rec(d + 1, a)
            return tot % P
        return rec(0, acc0)

    def values(self, expr, targets, assignments):
        """value of ``expr`` (sympy, expanded by the caller) for each target assignment"""
        terms = expr.args if type(expr).__name__ == "Add" else (expr,)
        compiled = []
        for t in terms:
            factors = self._term_factors(t)
            idx = set()
            for _, fi in factors:
                idx |= fi
            sum_idx = sorted((i for i in idx if i not in targets), key=_idx_key)
            compiled.append((factors, sum_idx))
        out = []
        for tasg in assignments:
            tot = 0
            for factors, sum_idx in compiled:
                tot += self._sum_term(factors, tasg, sum_idx)
            out.append(tot % P)
        return out

    def target_assignments(self, targets, rng=None, limit=64):
        ranges = [self.orbitals(t) for t in targets]
        total = 1
        for r in ranges:
            total *= len(r)
        if total == 0:
            return []
        if total <= limit or rng is None:
            combos = itertools.product(*ranges)
            return [dict(zip(targets, c)) for c in itertools.islice(combos, limit)]
        picks = sorted(rng.sample(range(total), limit))
        out = []
        for k in picks:
            c = []
            for r in reversed(ranges):
                k, m = divmod(k, len(r))
                c.append(r[m])
            out.append(dict(zip(targets, reversed(c))))
        return out


def _space_spin(idx):
    a = idx.assumptions0
    if a.get("below_fermi"):
        space = "occ"
    elif a.get("above_fermi"):
        space = "virt"
    else:
        space = "general"
    spin = "a" if a.get("alpha") else "b" if a.get("beta") else ""
    return space, spin


def _idx_key(i):
    sp, spin = _space_spin(i)
    name = i.name
    return (sp, spin, int(name[1:]) if name[1:].isdigit() else 0, name[:1],
            i.dummy_index)


def fingerprint(expr, targets, model_seeds=(11, 23), n_occ=2, n_virt=2,
                name_map=None, rng_seed=0, limit=32):
    """Vector of values over target assignments for each model seed, as a short digest
    plus the raw first values (for reports).  ``expr`` is a plain sympy expression."""
    import random
    expr = expr.expand()
    vals = []
    for ms in model_seeds:
        m = Model(ms, n_occ, n_virt, name_map)
        asg = m.target_assignments(list(targets), random.Random(rng_seed), limit)
        vals.append(m.values(expr, set(targets), asg))
    h = hashlib.blake2b(repr(vals).encode(), digest_size=10).hexdigest()
    return h, [v[:2] for v in vals]
