"""Reference model of the global index registry (DESIGN §4.1).

The harness wraps the *bound methods of the Indices() singleton instance* with recording
pass-through wrappers; the library code itself is untouched.  The model keeps, per
(space, spin), the names ever handed out and the object it saw for each, and checks
R1 (freshness of generic names), R2 (identity), R3 (shape), R5 (rejection) after every
call made by any part of the library.  R4 (pool hygiene, white box) is only *recorded*
as a latent state, never reported as a violation by itself.
"""

BASE = {"occ": "ijklmno", "virt": "abcdefgh", "general": "pqrstuvw"}
SPINS = ("", "a", "b")


def space_of(name: str):
    for sp, letters in BASE.items():
        if name[:1] in letters:
            return sp
    return None


def split_names(s):
    """independent re-implementation of the documented splitting 'ij12a3b'->i,j12,a3,b"""
    if not isinstance(s, str):
        return list(s)
    out = []
    for ch in s:
        if ch.isdigit() and out:
            out[-1] += ch
        else:
            out.append(ch)
    return out


def valid_name(n: str) -> bool:
    # what the documentation promises to reject: a first letter outside the three
    # alphabets.  (Suffixes are not validated by the library; the workload only ever
    # uses "<letter><digits>".)
    return isinstance(n, str) and bool(n) and space_of(n) is not None


class RegistryModel:
    def __init__(self, indices_singleton, index_cls, inputerror_cls, on_violation,
                 on_event=None):
        self.ind = indices_singleton
        self.Index = index_cls
        self.Inputerror = inputerror_cls
        self.on_violation = on_violation
        self.on_event = on_event or (lambda *a, **k: None)
        # (space, spin) -> {name: object}
        self.known = {(sp, s): {} for sp in BASE for s in SPINS}
        # names handed out by get_generic_indices, per (space, spin)
        self.generic_out = {(sp, s): [] for sp in BASE for s in SPINS}
        self.depth = 0
        self.stats = {"get_indices": 0, "get_generic_indices": 0, "gen_generic": 0,
                      "R1": 0, "R2": 0, "R3": 0, "R5": 0, "R4_latent": 0,
                      "explicit_removed_pooled": 0, "pool_rollover": 0,
                      "rejected": 0, "aborted_inside": 0}
        self.latent = []
        self._install()

    # ------------------------------------------------------------------ wrapping
    def _install(self):
        ind = self.ind
        real_get = ind.get_indices
        real_generic = ind.get_generic_indices
        real_gen = getattr(ind, "_gen_generic_idx", None)
        model = self

        def get_indices(indices, spins=None):
            model.depth += 1
            pooled_before = None
            try:
                try:
                    names = split_names(indices)
                    sp_list = list(spins) if spins is not None else [""] * len(names)
                except Exception:  # noqa: BLE001
                    names, sp_list = None, None
                try:  # white-box probe only (reach statistics)
                    pooled_before = [
                        (n, s) for n, s in zip(names, sp_list)
                        if valid_name(n) and s in SPINS and
                        n in ind._generic_indices[space_of(n)][s]]
                except Exception:  # noqa: BLE001
                    pooled_before = None
                try:
                    ret = real_get(indices, spins)
                except BaseException as exc:
                    model._after_failure("get_indices", exc, (indices, spins))
                    raise
                model._check_get(names, sp_list, ret, indices, spins)
                if pooled_before and model.depth == 1:
                    model.stats["explicit_removed_pooled"] += len(pooled_before)
                return ret
            finally:
                model.depth -= 1

        def get_generic_indices(**kwargs):
            model.depth += 1
            try:
                before = {k: set(v) for k, v in model.known.items()}
                try:
                    ret = real_generic(**kwargs)
                except BaseException as exc:
                    model._after_failure("get_generic_indices", exc, kwargs)
                    raise
                model._check_generic(kwargs, ret, before)
                return ret
            finally:
                model.depth -= 1

        def _gen_generic_idx(*a, **k):
            # private helper: wrapped only to count calls, whatever its signature is
            model.stats["gen_generic"] += 1
            try:
                space = a[0] if a else k.get("space")
                spin = a[1] if len(a) > 1 else k.get("spin", "")
                if ind._counter[space][spin] > ind._initial_counter:
                    model.stats["pool_rollover"] += 1
            except Exception:  # noqa: BLE001 - white-box probe only
                pass
            return real_gen(*a, **k)

        ind.get_indices = get_indices
        ind.get_generic_indices = get_generic_indices
        if real_gen is not None:
            ind._gen_generic_idx = _gen_generic_idx

    # ------------------------------------------------------------------ checks
    def _viol(self, rule, detail):
        self.on_violation({"class": "registry", "rule": rule, "detail": detail})

    def _shape_ok(self, obj, name, space, spin):
        if type(obj) is not self.Index and not isinstance(obj, self.Index):
            return False
        a = obj.assumptions0
        o_space = ("occ" if a.get("below_fermi") else
                   "virt" if a.get("above_fermi") else "general")
        o_spin = "a" if a.get("alpha") else "b" if a.get("beta") else ""
        return obj.name == name and o_space == space and o_spin == spin

    def _check_get(self, names, sp_list, ret, indices, spins):
        self.stats["get_indices"] += 1
        if names is None or len(names) != len(sp_list) or \
                not all(valid_name(n) for n in names) or \
                not all(s in SPINS for s in sp_list):
            # malformed request that was *accepted*
            self.stats["R5"] += 1
            self._viol("R5", f"malformed request accepted: {indices!r}, {spins!r}")
            return
        # expected shape of the returned dict
        expect = {}
        for n, s in zip(names, sp_list):
            expect.setdefault((space_of(n), s), []).append(n)
        self.stats["R3"] += 1
        if not isinstance(ret, dict) or set(ret.keys()) != set(expect.keys()):
            self._viol("R3", f"keys {sorted(map(str, ret))} != {sorted(map(str, expect))}"
                       f" for request {names}/{sp_list}")
            return
        for key, nlist in expect.items():
            objs = ret[key]
            if len(objs) != len(nlist):
                self._viol("R3", f"{key}: {len(objs)} objects for names {nlist}")
                return
            for n, o in zip(nlist, objs):
                if not self._shape_ok(o, n, key[0], key[1]):
                    self._viol("R3", f"{key}: object {o!r} returned for name {n}")
                    return
                self.stats["R2"] += 1
                prev = self.known[key].get(n)
                if prev is None:
                    self.known[key][n] = o
                elif prev is not o:
                    self._viol("R2", f"{key}: a different object was returned for the "
                               f"already handed out name {n}")
                    return
        # same name, different spin => distinct objects
        byname = {}
        for key, objs in ret.items():
            for o in objs:
                byname.setdefault(o.name, []).append((key, o))
        for n, lst in byname.items():
            for i in range(len(lst)):
                for j in range(i + 1, len(lst)):
                    if lst[i][0] != lst[j][0] and lst[i][1] is lst[j][1]:
                        self._viol("R2", f"name {n}: same object for {lst[i][0]} and "
                                   f"{lst[j][0]}")

    def _check_generic(self, kwargs, ret, before):
        self.stats["get_generic_indices"] += 1
        expect = {}
        for k, n in kwargs.items():
            if n == 0:
                continue
            parts = k.split("_")
            key = (parts[0], parts[1] if len(parts) == 2 else "")
            expect[key] = n  # later keyword for the same pool wins (dict update)
        self.stats["R1"] += 1
        if not isinstance(ret, dict) or set(ret.keys()) != set(expect.keys()):
            self._viol("R1", f"keys {sorted(map(str, ret))} for request {kwargs}")
            return
        for key, n in expect.items():
            objs = ret[key]
            names = [o.name for o in objs]
            if len(objs) != n:
                self._viol("R1", f"{key}: requested {n} generic indices, got {names}")
                return
            if len(set(names)) != n or len({id(o) for o in objs}) != n:
                self._viol("R1", f"{key}: generic indices not pairwise distinct: {names}")
                return
            stale = [nm for nm in names if nm in before[key]]
            if stale:
                self._viol("R1", f"{key}: generic names {stale} had already been handed "
                           f"out before this request ({names})")
                return
            for o, nm in zip(objs, names):
                if not self._shape_ok(o, nm, key[0], key[1]):
                    self._viol("R3", f"{key}: generic object {o!r}")
                    return
            # the model learns the objects from what the *public* call returned, whatever
            # the library did internally
            for o, nm in zip(objs, names):
                prev = self.known[key].get(nm)
                if prev is None:
                    self.known[key][nm] = o
                elif prev is not o:
                    self._viol("R2", f"{key}: generic request returned a different object "
                               f"for the already handed out name {nm}")
                    return
            self.generic_out[key].extend(names)

    def _after_failure(self, what, exc, args):
        """A registry call raised.  Sync the names the library really registered
        (white box, only here) so that R1/R2 stay exact afterwards, and check R5."""
        if isinstance(exc, self.Inputerror):
            self.stats["rejected"] += 1
        elif not isinstance(exc, Exception) or isinstance(exc, MemoryError):
            self.stats["aborted_inside"] += 1
        try:
            for sp in BASE:
                for s in SPINS:
                    for n, o in self.ind._symbols[sp][s].items():
                        self.known[(sp, s)].setdefault(n, o)
        except Exception:  # noqa: BLE001 - private layout changed: the model stays black-box
            self.stats["whitebox_unavailable"] = self.stats.get("whitebox_unavailable", 0) + 1

    # ------------------------------------------------------------------ R4 (latent)
    def pool_hygiene(self):
        """white-box: names that are both pooled and registered, or pooled twice"""
        bad = []
        try:
            return self._pool_hygiene()
        except Exception:  # noqa: BLE001 - private layout changed
            self.stats["whitebox_unavailable"] = self.stats.get("whitebox_unavailable", 0) + 1
            return []

    def _pool_hygiene(self):
        bad = []
        for sp in BASE:
            for s in SPINS:
                pool = self.ind._generic_indices[sp][s]
                syms = self.ind._symbols[sp][s]
                both = [n for n in pool if n in syms]
                dup = sorted({n for n in pool if pool.count(n) > 1})
                if both or dup:
                    bad.append({"pool": [sp, s], "pooled_and_registered": both,
                                "duplicates": dup})
        if bad:
            self.stats["R4_latent"] += 1
        return bad

    def state_digest_tuple(self):
        out = []
        try:
            for sp in BASE:
                for s in SPINS:
                    out.append((self.ind._counter[sp][s],
                                len(self.ind._generic_indices[sp][s]),
                                len(self.ind._symbols[sp][s])))
        except Exception:  # noqa: BLE001 - private layout changed: use the model's own view
            out = [(len(self.known[(sp, s)]), len(self.generic_out[(sp, s)]))
                   for sp in BASE for s in SPINS]
        return tuple(out)

    def was_generic(self, key, name) -> bool:
        return name in self.generic_out[key]
