"""Session side of the simulator: seams, boot, fault injector, clock (DESIGN §3).

Runs inside a zygote / child / fresh interpreter.  Nothing in here draws from a PRNG
that is not derived from the job's seed and nothing reads a real clock except for
wall-time accounting (never digested).
"""
import builtins
import io
import json
import os
import sys
import time as _time

REAL_PERF = _time.perf_counter
REPO = os.environ.get("VERIF_REPO", "/repo")

DEFAULT_NAMES = {
    "eri": "V", "coulomb": "v", "fock": "f", "operator": "d", "gs_amplitude": "t",
    "gs_density": "p", "left_adc_amplitude": "X", "right_adc_amplitude": "Y",
    "orb_energy": "e", "sym_orb_denom": "D",
}

# vetted admissible tensor-name configurations (DESIGN §6.3): pairwise distinct names, no
# helper-tensor names, amplitude / density bases not prefixes of each other, and no name
# that sympy.sympify turns into something other than a Symbol (E, I, S, N, O, Q, C, pi,
# gamma, ...: the tensor constructors sympify their name)
CONFIGS = {
    "default": {},
    "full": {"eri": "W", "fock": "F", "gs_amplitude": "s", "gs_density": "rho",
             "orb_energy": "eps", "sym_orb_denom": "Dn", "left_adc_amplitude": "L",
             "right_adc_amplitude": "R", "coulomb": "w", "operator": "o"},
    "amps": {"gs_amplitude": "amp", "left_adc_amplitude": "Yl",
             "right_adc_amplitude": "Yr"},
    "ints": {"eri": "eri", "fock": "fock", "orb_energy": "eo", "coulomb": "cou"},
    "swap": {"eri": "f", "fock": "V", "left_adc_amplitude": "Y",
             "right_adc_amplitude": "X"},
    "dens": {"gs_density": "gam", "operator": "B", "sym_orb_denom": "Den"},
    # single-letter names that the library also uses for its own throw-away symbols
    "xop": {"operator": "x", "coulomb": "y", "sym_orb_denom": "z"},
}


def config_names(config_id: str) -> dict:
    d = dict(DEFAULT_NAMES)
    d.update(CONFIGS[config_id])
    return d


_state = {"booted": False}


def boot(config_id="default"):
    """Install the import-time seams and import sympy + adcgen from the repository's
    working tree.  Must run in a fresh interpreter (zygote or one-shot)."""
    assert not _state["booted"]
    if REPO not in sys.path:
        sys.path.insert(0, REPO)
    names = config_names(config_id)
    logger_cfg = {
        "version": 1, "disable_existing_loggers": False,
        "handlers": {"null": {"class": "logging.NullHandler"}},
        "loggers": {"adcgen": {"level": "ERROR", "handlers": ["null"]}},
    }
    served = {"tensor_names.json": json.dumps(names),
              "logger_config.json": json.dumps(logger_cfg)}
    real_open = builtins.open
    pkg_dir = os.path.realpath(os.path.join(REPO, "adcgen"))
    served_log = []

    def shim_open(file, *a, **k):
        try:
            p = os.path.realpath(os.fspath(file))
        except TypeError:
            return real_open(file, *a, **k)
        if os.path.dirname(p) == pkg_dir and os.path.basename(p) in served:
            served_log.append(os.path.basename(p))
            return io.StringIO(served[os.path.basename(p)])
        return real_open(file, *a, **k)

    for var in ("ADCGEN_LOG_CONFIG", "ADCGEN_LOG_LEVEL"):
        os.environ.pop(var, None)
    import sympy  # noqa: F401  (real sympy, imported before the shim is active)
    builtins.open = shim_open
    try:
        import adcgen
    finally:
        builtins.open = real_open
    here = os.path.realpath(os.path.dirname(adcgen.__file__))
    if here != pkg_dir:
        raise RuntimeError(f"adcgen imported from {here}, expected {pkg_dir}")
    if "tensor_names.json" not in served_log:
        raise RuntimeError("tensor_names.json was not read through the seam")
    from adcgen.tensor_names import tensor_names
    for k, v in names.items():
        if getattr(tensor_names, k) != v:
            raise RuntimeError(f"configuration seam failed for {k}")
    from adcgen.misc import Singleton
    from adcgen.indices import Indices
    # white-box sanity check, skipped when the metaclass keeps its instances elsewhere
    for attr, val in list(vars(Singleton).items()):
        if isinstance(val, dict) and Indices in val:
            raise RuntimeError("index registry not pristine after import")
    _state.update(booted=True, config_id=config_id, names=names)
    return adcgen


class SimClock:
    """Simulated time.perf_counter: advanced by the scheduler, never by wall time."""

    def __init__(self):
        self.now = 1000.0
        self.step = 0.001
        self.calls = 0
        self.callers = set()
        self.lo = self.hi = self.now

    def __call__(self):
        self.calls += 1
        f = sys._getframe(1)
        self.callers.add(os.path.basename(f.f_code.co_filename))
        self.now += self.step
        self.lo = min(self.lo, self.now)
        self.hi = max(self.hi, self.now)
        return self.now

    def jump(self, dt):
        self.now += dt
        self.lo = min(self.lo, self.now)
        self.hi = max(self.hi, self.now)

    def install(self):
        _time.perf_counter = self


# ------------------------------------------------------------------------- injector
STATE_WRITERS = [
    # (module, qualified names) whose code objects write S1-S7
    ("adcgen.indices", ["Indices.get_indices", "Indices._gen_generic_idx",
                        "Indices.get_generic_indices", "Indices._new_symbol",
                        "get_symbols"]),
    ("adcgen.misc", ["cached_member.<locals>.wrapper", "cached_property.<locals>.get",
                     "Singleton.__call__"]),
    ("adcgen.generate_code.contraction", ["Contraction.__init__"]),
    ("adcgen.intermediates", ["RegisteredIntermediate.expand_itmd",
                              "RegisteredIntermediate._prepare_itmd",
                              "RegisteredIntermediate.itmd_term_map"]),
    ("adcgen.symmetry", ["LazyTermMap.__getitem__", "LazyTermMap.probe_symmetry",
                         "LazyTermMap.__init__"]),
    ("adcgen.expr_container", ["Expr.substitute_contracted", "Expr.substitute_with_generic",
                               "Term.substitute_contracted", "Term.substitute_with_generic",
                               "Expr.expand", "Expr.subs", "Expr.make_real",
                               "Expr.set_target_idx", "Expr.expand_intermediates",
                               "Expr.diagonalize_fock", "Expr.__iadd__", "Expr.__imul__"]),
    ("adcgen.groundstate", ["GroundState.psi", "GroundState.energy"]),
    ("adcgen.operators", ["Operators.operator", "Operators.mp_h1", "Operators.re_h1"]),
]


def _all_code_objects(prefix="adcgen"):
    """every code object defined in the adcgen package (by co_filename)"""
    pkg_dir = os.path.realpath(os.path.join(REPO, "adcgen"))
    seen, out, stack = set(), [], []
    import types
    for name, mod in sorted(sys.modules.items()):
        if mod is None or not (name == prefix or name.startswith(prefix + ".")):
            continue
        for v in list(vars(mod).values()):
            stack.append(v)
    visited = set()
    while stack:
        v = stack.pop()
        if id(v) in visited:
            continue
        visited.add(id(v))
        code = None
        if isinstance(v, types.FunctionType):
            code = v.__code__
            if v.__closure__:
                for c in v.__closure__:
                    try:
                        stack.append(c.cell_contents)
                    except ValueError:
                        pass
            w = getattr(v, "__wrapped__", None)
            if w is not None:
                stack.append(w)
        elif isinstance(v, (staticmethod, classmethod)):
            stack.append(v.__func__)
        elif isinstance(v, property):
            stack.extend(x for x in (v.fget, v.fset, v.fdel) if x is not None)
        elif isinstance(v, type):
            if getattr(v, "__module__", "").startswith(prefix):
                stack.extend(vars(v).values())
        elif isinstance(v, types.CodeType):
            code = v
        if code is not None and id(code) not in seen:
            if os.path.realpath(code.co_filename).startswith(pkg_dir):
                seen.add(id(code))
                out.append(code)
                for c in code.co_consts:
                    if isinstance(c, types.CodeType):
                        stack.append(c)
    out.sort(key=lambda c: (c.co_filename, c.co_firstlineno, c.co_qualname))
    return out


def _state_writer_codes():
    allc = _all_code_objects()
    wanted = set()
    for mod, quals in STATE_WRITERS:
        fn = mod.split(".", 1)[1].replace(".", "/") + ".py"
        for q in quals:
            wanted.add((fn, q))
    out = []
    pkg_dir = os.path.realpath(os.path.join(REPO, "adcgen"))
    for c in allc:
        rel = os.path.relpath(os.path.realpath(c.co_filename), pkg_dir)
        if (rel, c.co_qualname) in wanted or rel in ("indices.py", "misc.py"):
            # every code object of the registry module and of the caching decorators
            out.append(c)
        elif rel == "intermediates.py" and c.co_qualname.endswith("._build_expanded_itmd"):
            out.append(c)
    return out


class Abort:
    """descriptor of the fault that fired"""
    def __init__(self):
        self.site = None


class Injector:
    """Counts / aborts at LINE events of chosen adcgen code objects via sys.monitoring."""
    TOOL = 4

    def __init__(self):
        self.mon = sys.monitoring
        self._codes = {}
        self.active = False
        self.n = 0
        self.k = None
        self.exc = None
        self.fired = None
        self.hits = {}
        self.first_hits = None
        self._seen_lines = set()
        self.last_first_hits = []
        self._pkg = os.path.realpath(os.path.join(REPO, "adcgen"))
        self.mon.use_tool_id(self.TOOL, "verif-sim")
        self.mon.register_callback(self.TOOL, self.mon.events.LINE, self._cb)
        # generator expressions live on one source line: every bytecode instruction of such a
        # code object is an eligible cut point, so that an interruption can land between two
        # items a generator feeds into list.extend / dict.update / sum ...
        self.mon.register_callback(self.TOOL, self.mon.events.INSTRUCTION, self._cb_instr)

    def codes(self, mode):
        if mode not in self._codes:
            self._codes[mode] = (_state_writer_codes() if mode == "state"
                                 else _all_code_objects())
        return self._codes[mode]

    def _cb(self, code, line):
        if not self.active:
            return
        self.n += 1
        if self.first_hits is not None:
            key = (id(code), line)
            if key not in self._seen_lines:
                self._seen_lines.add(key)
                if len(self.first_hits) < 20000:
                    self.first_hits.append(self.n)
        if self.k is not None and self.n == self.k:
            key = (os.path.relpath(os.path.realpath(code.co_filename), self._pkg), line)
            self.active = False
            self.fired = {"file": key[0], "line": line if line >= 0 else
                          f"{code.co_firstlineno}+i{-line - 1}", "func": code.co_qualname,
                          "event": self.n}
            raise self.exc(f"injected at {key[0]}:{line}")

    def _cb_instr(self, code, offset):
        return self._cb(code, -offset - 1)

    def _arm(self, mode, on):
        for c in self.codes(mode):
            ev = 0
            if on:
                ev = self.mon.events.LINE
                if c.co_name == "<genexpr>":
                    ev |= self.mon.events.INSTRUCTION
            self.mon.set_local_events(self.TOOL, c, ev)

    def count(self, mode, fn):
        """run fn() counting eligible events; returns N (fn's effects are the caller's
        problem: call this in a forked twin)"""
        self.n, self.k, self.fired = 0, None, None
        self.first_hits, self._seen_lines = [], set()
        self._arm(mode, True)
        self.active = True
        try:
            try:
                fn()
            except BaseException:
                pass
        finally:
            self.active = False
            self._arm(mode, False)
        hits, self.first_hits = self.first_hits, None
        self.last_first_hits = hits
        return self.n

    def run(self, mode, fn, k, exc):
        """run fn() raising exc at the k-th eligible event.  Returns (fired, result, error)"""
        self.n, self.k, self.fired, self.exc = 0, k, None, exc
        self._arm(mode, True)
        self.active = True
        result, error = None, None
        try:
            try:
                result = fn()
            except BaseException as e:  # noqa: BLE001 - the injected fault is a BaseException
                error = e
        finally:
            self.active = False
            self._arm(mode, False)
        return self.fired, result, error


def count_in_twin(injector, mode, fn, timeout=120):
    """fork a twin of the current process image that only counts eligible events"""
    r, w = os.pipe()
    pid = os.fork()
    if pid == 0:
        try:
            os.close(r)
            n = injector.count(mode, fn)
            import json as _json
            data = _json.dumps([n, injector.last_first_hits]).encode()
            view = memoryview(data)
            while view:
                m = os.write(w, view)
                view = view[m:]
        finally:
            os._exit(0)
    os.close(w)
    data = b""
    import select
    deadline = REAL_PERF() + timeout
    while True:
        left = deadline - REAL_PERF()
        if left <= 0:
            try:
                os.kill(pid, 9)
            except ProcessLookupError:
                pass
            break
        rl, _, _ = select.select([r], [], [], left)
        if not rl:
            continue
        chunk = os.read(r, 1 << 16)
        if not chunk:
            break
        data += chunk
    os.close(r)
    os.waitpid(pid, 0)
    try:
        import json as _json
        n, hits = _json.loads(data.decode())
        injector.last_first_hits = hits
        return int(n)
    except ValueError:
        injector.last_first_hits = []
        return 0


class HeapSkew:
    def __init__(self, n):
        self.junk = [object() for _ in range(n)]
        self.more = [bytearray(37 + (i % 11)) for i in range(n // 7)]


def apply_session_params(params):
    """per-run seams applied after fork (DESIGN §3.2)"""
    from sympy import Dummy
    import logging
    out = {}
    out["heap"] = HeapSkew(int(params.get("heap_skew", 0)))
    if "dummy_base" in params:
        Dummy._base_dummy_index = int(params["dummy_base"])
    if "dummy_count" in params:
        Dummy._count = int(params["dummy_count"])
    logging.getLogger("adcgen").setLevel(params.get("log_level", "ERROR"))
    clock = SimClock()
    clock.step = float(params.get("clock_step", 0.001))
    clock.install()
    out["clock"] = clock
    return out
