"""Self-tests of the machinery: determinism (DESIGN §9.1) and sensitivity (§9.2)."""
import glob
import json
import os
import subprocess
import sys
import time

from . import host, driver, c08, c19, check_c19
from .driver import log
from .seeds import digest

VERIF = driver.VERIF


def _gen_digests(seed, n):
    out = []
    tids = [t["id"] for t in c19.templates_for("quick")]
    for r in range(n):
        out.append(digest(c08.generate(seed, r, "quick")))
        out.append(digest(c19.generate(seed, r, "quick", template_ids=tids)))
    return digest(out)


def determinism(seed, n=200):
    """every sampled run must give the identical event-log digest (i) twice from the same
    zygote, (ii) from an independently started zygote with another worker count, (iii) in a
    fresh non-forked interpreter; schedule generation must not depend on the host's hash
    seed"""
    t0 = time.time()
    bad = 0
    # host-side generation under another hash seed
    here = _gen_digests(seed, n)
    code = ("import sys; sys.path.insert(0, %r); from sim import selftest; "
            "print(selftest._gen_digests(%d, %d))" % (VERIF, seed, n))
    other = subprocess.run([host.PY, "-c", code], capture_output=True, text=True,
                           env=dict(os.environ, PYTHONHASHSEED="12345")).stdout.strip()
    log(f"[selftest] schedule generation digest host-seed 0 vs 12345: "
        f"{'equal' if here == other else 'DIFFERENT'}")
    bad += here != other
    ref = check_c19.build_reference("quick")[0]
    tids = [t["id"] for t in c19.templates_for("quick")]
    pool = driver.env_pool(seed, 8)
    for prop in ("c08", "c19"):
        jobs = []
        for r in range(n):
            env = pool[r % len(pool)]
            if prop == "c08":
                jobs.append({"kind": "c08", "seed": seed, "run": r, "tier": "quick",
                             "env": env, "timeout": 600})
            else:
                params, steps = c19.generate(seed, r, "quick", template_ids=tids)
                jobs.append({"kind": "c19", "seed": seed, "run": r, "env": env,
                             "params": params, "steps": steps,
                             "ref": check_c19.ref_for(ref, steps), "timeout": 900})
        a = host.run_jobs(jobs + jobs, workers=16, group_size=2 * n)  # same zygote twice
        b = host.run_jobs(jobs, workers=3, group_size=5)                # other zygotes
        first, second = a[:n], a[n:]
        k = max(10, n // 10)
        from concurrent.futures import ThreadPoolExecutor
        with ThreadPoolExecutor(max_workers=8) as ex:
            fresh = list(ex.map(host.oneshot, jobs[:k]))
        m1 = sum(1 for x, y in zip(first, second) if x.get("digest") != y.get("digest")
                 or not x.get("digest"))
        m2 = sum(1 for x, y in zip(first, b) if x.get("digest") != y.get("digest"))
        m3 = sum(1 for x, y in zip(first, fresh) if x.get("digest") != y.get("digest"))
        faults = sum(len(x["stats"]["faults_fired"]) for x in first if x.get("stats"))
        log(f"[selftest] {prop}: {n} runs ({faults} faults fired): same-zygote mismatches "
            f"{m1}, other-zygote/worker-count mismatches {m2}, fresh-interpreter mismatches "
            f"{m3} (of {k})")
        bad += m1 + m2 + m3
    with open(os.path.join(VERIF, "evidence", "selftest_determinism.json"), "w") as f:
        json.dump({"seed": seed, "runs_per_property": n, "modes": [
            "twice from the same zygote", "independently started zygotes, 3 workers instead "
            "of 16", f"fresh non-forked interpreter (first {max(10, n // 10)} runs)",
            "schedule generation under host PYTHONHASHSEED 0 and 12345"],
            "mismatches": bad, "wall_s": round(time.time() - t0)}, f, indent=1)
    log(f"[selftest] determinism {'OK' if not bad else 'FAILED'} in {time.time() - t0:.0f}s")
    return 0 if not bad else 2


def mutants(args):
    """apply each sensitivity mutant to a scratch worktree, run the quick checks against it
    and record what catches it (never touches /repo or /verif sources)"""
    only = [a for a in args if not a.startswith("--")]
    run_tests = "--tests" in args
    wt = "/tmp/verif_mutant_wt"
    subprocess.run(["git", "-C", "/repo", "worktree", "remove", "--force", wt],
                   capture_output=True)
    subprocess.run(["git", "-C", "/repo", "worktree", "add", "-q", wt, "HEAD"], check=True)
    table = []
    try:
        for patch in sorted(glob.glob(os.path.join(VERIF, "mutants", "*.patch"))):
            name = os.path.basename(patch)[:-6]
            if only and not any(o in name for o in only):
                continue
            subprocess.run(["git", "-C", wt, "checkout", "--", "."], check=True)
            r = subprocess.run(["git", "-C", wt, "apply", patch], capture_output=True, text=True)
            if r.returncode:
                log(f"{name}: patch does not apply: {r.stderr[:200]}")
                continue
            row = {"mutant": name}
            if run_tests:
                t = subprocess.run([host.PY, "-m", "pytest", "-q", "-x", "-p",
                                    "no:cacheprovider", "-n", "8", "--timeout=900"],
                                   cwd=wt, capture_output=True, text=True)
                row["tests"] = t.stdout.strip().splitlines()[-1] if t.stdout.strip() else "?"
            for prop in ("C08", "C19"):
                t0 = time.time()
                env = dict(os.environ, VERIF_REPO=wt, VERIF_EVIDENCE_DIR="/tmp/verif_mut_ev",
                           VERIF_REPLAY_DIR="/tmp/verif_mut_replays")
                p = subprocess.run([os.path.join(VERIF, "check"), prop], capture_output=True,
                                   text=True, env=env)
                lines = [ln for ln in p.stdout.splitlines() if ln.startswith("VIOLATION")
                         or ln.startswith("  class=")]
                row[prop] = {"exit": p.returncode, "wall_s": round(time.time() - t0),
                             "first": lines[:2]}
            log(json.dumps(row))
            table.append(row)
    finally:
        subprocess.run(["git", "-C", "/repo", "worktree", "remove", "--force", wt],
                       capture_output=True)
        subprocess.run(["rm", "-rf", "/tmp/verif_mut_ev", "/tmp/verif_mut_replays"])
    out = os.path.join(VERIF, "evidence", "sensitivity.json")
    if not only:
        with open(out, "w") as f:
            json.dump(table, f, indent=1)
    missed = [r["mutant"] for r in table if r["C08"]["exit"] != 1 and r["C19"]["exit"] != 1]
    log(f"[mutants] {len(table)} mutants, not caught: {missed}")
    return 0
