"""Deterministic simulation with fault injection for jonasleitner/adcgen (see DESIGN.md)."""
