"""Text-stability soak (maintenance tool, not a check): which request templates give a
history-dependent literal text on the current tree?  Used to enumerate the known finding
"Term.substitute_contracted is not a canonical labelling" template by template.

    ./check soak-text [--k N] [--seeds 1,2,3] [--out file]

For every template T of the thorough tier, N fault-free histories (1-5 random cheap
requests, shared or private derivation objects, default environment) are executed with T
as the last request; divergences from the pristine reference are tallied per class.
"""
import json
import os
import time

from . import host, c19, check_c19
from . import catalogue as cat
from .driver import log
from .seeds import derive


def run(args):
    k = int(args[args.index("--k") + 1]) if "--k" in args else 12
    seeds = [int(x) for x in args[args.index("--seeds") + 1].split(",")] \
        if "--seeds" in args else [1]
    out = args[args.index("--out") + 1] if "--out" in args else "/tmp/soak_text.json"
    tier = "thorough"
    t0 = time.time()
    ref, ref_full, _, _, _ = check_c19.build_reference(tier)
    tids = [t["id"] for t in c19.templates_for(tier)]
    cheap = [t for t in tids if cat.BY_ID[t]["cost"] <= 3]
    tally = {}
    for seed in seeds:
        rng = derive(seed, "soak")
        jobs = []
        for tid in tids:
            client = cat.BY_ID[tid]["client"]
            same = [t for t in cheap if cat.BY_ID[t]["client"].split(".")[0] ==
                    client.split(".")[0]] or cheap
            for n in range(k):
                pool = same if rng.random() < 0.6 else cheap
                hist = [{"op": "req", "t": rng.choice(pool)}
                        for _ in range(rng.choice([1, 2, 3, 5]))]
                if rng.random() < 0.3:
                    hist.insert(0, {"op": "reg.generic",
                                    "kw": {"occ": rng.choice([1, 3, 8]),
                                           "virt": rng.choice([1, 2, 9])}})
                steps = hist + [{"op": "req", "t": tid}]
                params = dict(check_c19.DEFAULT_PARAMS, shared=rng.random() < 0.75)
                jobs.append({"kind": "c19", "seed": seed, "run": f"soak-{tid}-{n}",
                             "params": params, "steps": steps,
                             "ref": check_c19.ref_for(ref, steps), "timeout": 1500})
        res = host.run_jobs(jobs)
        for j, r in zip(jobs, res):
            if r.get("harness_error") or r.get("harness_timeout"):
                tally.setdefault("__harness__", []).append(str(r)[:300])
                continue
            last = j["steps"][-1]["t"]
            for s in j["steps"]:
                if s["op"] == "req":
                    d = tally.setdefault(s["t"], {"runs": 0})
                    d["runs"] += 1
            for v in r["violations"]:
                d = tally.setdefault(v.get("template", "?"), {"runs": 0})
                d[v["class"]] = d.get(v["class"], 0) + 1
                if v["class"] == "text" and "witness" not in d:
                    d["witness"] = [s.get("t", s["op"]) for s in j["steps"][:v["step"]]]
        log(f"[soak] seed {seed}: {len(jobs)} runs, {time.time() - t0:.0f}s")
    unstable = {t: d for t, d in tally.items() if isinstance(d, dict) and
                any(c in d for c in ("text", "structure", "value", "outcome"))}
    with open(out, "w") as f:
        json.dump({"tally": tally, "unstable": unstable}, f, indent=1)
    for t, d in sorted(unstable.items()):
        log(f"[soak] {t}: {d}")
    log(f"[soak] {len(unstable)} templates with divergences; written to {out}")
    return 0
