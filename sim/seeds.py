"""Splittable PRNG and canonical digests.  One integer (VERIF_SEED) decides everything."""
import hashlib
import json
import random


def derive(root, *purpose) -> random.Random:
    """Independent PRNG stream for (root seed, purpose...)."""
    h = hashlib.blake2b(repr((int(root),) + tuple(purpose)).encode(),
                        digest_size=16).digest()
    return random.Random(int.from_bytes(h, "big"))


def derive_int(root, *purpose, bits=63) -> int:
    h = hashlib.blake2b(repr((int(root),) + tuple(purpose)).encode(),
                        digest_size=16).digest()
    return int.from_bytes(h, "big") >> (128 - bits)


def canon(obj) -> str:
    return json.dumps(obj, sort_keys=True, separators=(",", ":"), default=str)


def digest(obj, n=16) -> str:
    return hashlib.blake2b(canon(obj).encode(), digest_size=n).hexdigest()
