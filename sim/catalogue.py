"""Request catalogue for C19 (DESIGN §6.2): what "the same request" ranges over.

A template has a stable id, a client (which long-lived derivation objects it uses), an
explicit target tuple (names) and a callable ``fn(world)`` that issues the request
through adcgen's public API.  Static input expressions are LaTeX texts imported inside
the session by ``import_from_sympy_latex`` (default tensor names, converted to the
session's configuration by the library itself).
"""

T = []          # list of template dicts, filled below
BY_ID = {}


NAMEVAR = {}


def tmpl(id, client, targets, tier="q", fresh=None, cost=1, text=True, fp=True):
    """decorator: register a request template"""
    def deco(fn):
        d = {"id": id, "client": client, "targets": targets, "tier": tier,
             "fresh": fresh, "fn": fn, "cost": cost, "text": text, "fp": fp}
        assert id not in BY_ID, id
        T.append(d)
        BY_ID[id] = d
        return fn
    return deco


# ----------------------------------------------------------------------------- texts
# static inputs (default tensor names)
TXT = {
    "mp2": r"- \frac{{V^{ab}_{ij}} {V^{ij}_{ab}}}{4 \left({e_{a}} + {e_{b}} - {e_{i}} - {e_{j}}\right)}",  # noqa: E501
    "t2_1x": r"\frac{{V^{ij}_{ab}} {X^{ab}_{ij}}}{2 \left({e_{a}} + {e_{b}} - {e_{i}} - {e_{j}}\right)}",  # noqa: E501
    "alpha2": r"{V^{jk}_{bc}} {Y^{bc}_{jk}} {f^{i}_{a}} + {V^{lm}_{de}} {Y^{de}_{lm}} {f^{i}_{a}} - 2 {V^{kj}_{bc}} {Y^{bc}_{kj}} {f^{i}_{a}}",  # noqa: E501
    "alpha3": r"{V^{ij}_{ab}} {t1^{ac}_{ik}} {Y^{b}_{j}} + {V^{lk}_{cd}} {t1^{ce}_{lm}} {Y^{d}_{k}} - {V^{ji}_{ab}} {t1^{bc}_{jk}} {Y^{a}_{i}}",  # noqa: E501
    "deltas": r"{f^{i}_{j}} \delta_{j k} {X^{a}_{k}} + {V^{ij}_{ab}} \delta_{b c} \delta_{j l} {t1^{ac}_{il}}",  # noqa: E501
    "deltas_t": r"\delta_{i j} \delta_{a b} {d^{j}_{b}} {X^{c}_{k}}",
    "opstring": r"{d^{p}_{q}} {a^\dagger_{p}} {a_{q}} {a^\dagger_{a}} {a_{i}}",
    "opstring2": r"{a^\dagger_{i}} {a_{a}} {V^{pq}_{rs}} {a^\dagger_{p}} {a^\dagger_{q}} {a_{s}} {a_{r}} {a^\dagger_{b}} {a_{j}}",  # noqa: E501
    "opgen": r"{a_{p}} {a^\dagger_{q}} {a_{r}} {a^\dagger_{s}} {d^{q}_{p}} {d^{s}_{r}}",
    "t2_2_like": (
        r"- \frac{{V^{cd}_{ef}} {V^{ij}_{ab}} {V^{kl}_{ef}}}{2 \left({e_{c}} + {e_{d}} - {e_{k}} - {e_{l}}\right) \left({e_{e}} + {e_{f}} - {e_{k}} - {e_{l}}\right)} "  # noqa: E501
        r"+ \frac{{V^{ij}_{ab}} {V^{ke}_{mc}} {V^{lm}_{de}}}{\left({e_{c}} + {e_{d}} - {e_{k}} - {e_{l}}\right) \left({e_{d}} + {e_{e}} - {e_{l}} - {e_{m}}\right)} "  # noqa: E501
        r"- \frac{{V^{ij}_{ab}} {V^{km}_{de}} {V^{le}_{mc}}}{\left({e_{c}} + {e_{d}} - {e_{k}} - {e_{l}}\right) \left({e_{d}} + {e_{e}} - {e_{k}} - {e_{m}}\right)} "  # noqa: E501
        r"- \frac{{V^{ij}_{ab}} {V^{ke}_{md}} {V^{lm}_{ce}}}{\left({e_{c}} + {e_{d}} - {e_{k}} - {e_{l}}\right) \left({e_{c}} + {e_{e}} - {e_{l}} - {e_{m}}\right)} "  # noqa: E501
        r"+ \frac{{V^{ij}_{ab}} {V^{km}_{ce}} {V^{le}_{md}}}{\left({e_{c}} + {e_{d}} - {e_{k}} - {e_{l}}\right) \left({e_{c}} + {e_{e}} - {e_{k}} - {e_{m}}\right)} "  # noqa: E501
        r"- \frac{{V^{ij}_{ab}} {V^{kl}_{mn}} {V^{mn}_{cd}}}{2 \left({e_{c}} + {e_{d}} - {e_{k}} - {e_{l}}\right) \left({e_{c}} + {e_{d}} - {e_{m}} - {e_{n}}\right)}"),  # noqa: E501
    "itmds": r"{t1^{ab}_{ij}} {t2^{a}_{i}} {X^{b}_{j}} + {p2^{i}_{j}} {f^{j}_{i}}",
    "contr": r"{V^{jk}_{bc}} {t1^{ab}_{ij}} {t1^{cd}_{kl}} {Y^{d}_{l}}",
    "sym3": r"{V^{jk}_{bc}} {t1^{ab}_{ij}} {Y^{c}_{k}}",
    "contr2": r"\frac{{V^{ij}_{ab}} {t1^{ab}_{jk}} {Y^{c}_{i}}}{2} - {V^{jc}_{kb}} {t1^{ab}_{ij}} {Y^{d}_{j}} {f^{k}_{d}}",  # noqa: E501
    "unitary": r"{U_{pq}} {U_{pr}} {d^{q}_{r}} + {U_{ij}} {U_{kj}} {V^{ia}_{kb}}",
    "deriv": r"\frac{{V^{ij}_{ab}} {t1cc^{ab}_{ij}} {t1^{cd}_{kl}} {V^{kl}_{cd}}}{16} - \frac{{t1cc^{ab}_{ij}} {t1^{ab}_{ij}} \left({e_{a}} + {e_{b}} - {e_{i}} - {e_{j}}\right)}{4}",  # noqa: E501
    "spin1": r"\frac{{V^{jk}_{ab}} {t1^{ab}_{jk}} {f^{i}_{c}}}{2} + {V^{ij}_{cb}} {Y^{b}_{j}}",
    "fock": r"{f^{i}_{j}} {X^{a}_{j}} - {f^{b}_{a}} {X^{b}_{i}} + {f^{k}_{c}} {t1^{ac}_{ik}}",
    "t1_2_once": r"\frac{{t1^{ab}_{jk}} {V^{jk}_{ib}} {X^{a}_{i}}}{- 2 {e_{a}} + 2 {e_{i}}} + \frac{{t1^{bc}_{ij}} {V^{ja}_{bc}} {X^{a}_{i}}}{- 2 {e_{a}} + 2 {e_{i}}}",  # noqa: E501
    "p0_2_mix": r"- \frac{{t1^{ab}_{ik}} {t1^{ab}_{jk}} {d^{i}_{j}}}{2} + \frac{{t1^{ac}_{ij}} {t1^{bc}_{ij}} {d^{a}_{b}}}{2}",  # noqa: E501
    "t2_2_once": (
        r"- \frac{{t1^{ab}_{kl}} {V^{ij}_{kl}} {Y^{ab}_{ij}}}{2 {e_{a}} + 2 {e_{b}} - 2 {e_{i}} - 2 {e_{j}}} "  # noqa: E501
        r"- \frac{{t1^{cd}_{ij}} {V^{ab}_{cd}} {Y^{ab}_{ij}}}{2 {e_{a}} + 2 {e_{b}} - 2 {e_{i}} - 2 {e_{j}}} "  # noqa: E501
        r"+ \frac{4 {t1^{ac}_{ik}} {V^{kb}_{jc}} {Y^{ab}_{ij}}}{{e_{a}} + {e_{b}} - {e_{i}} - {e_{j}}}"),  # noqa: E501
    "big_simplify": (
        r"{V^{ij}_{ab}} {t1^{ac}_{ik}} {t1^{bd}_{jl}} {Y^{cd}_{kl}} - {V^{ji}_{ab}} {t1^{bc}_{ik}} {t1^{ad}_{jl}} {Y^{cd}_{kl}} "  # noqa: E501
        r"+ {V^{mn}_{ef}} {t1^{eg}_{mo}} {t1^{fh}_{nk}} {Y^{gh}_{ok}} + \frac{{V^{ij}_{ab}} {t1^{ab}_{ij}} {Y^{cd}_{kl}} {t1cc^{cd}_{kl}}}{8} "  # noqa: E501
        r"- \frac{{V^{kl}_{cd}} {t1^{cd}_{kl}} {Y^{ab}_{ij}} {t1cc^{ab}_{ij}}}{8}"),
    "perm_sym": r"{V^{ak}_{ic}} {t1^{bc}_{jk}} - {V^{bk}_{ic}} {t1^{ac}_{jk}} - {V^{ak}_{jc}} {t1^{bc}_{ik}} + {V^{bk}_{jc}} {t1^{ac}_{ik}}",  # noqa: E501
    "denoms": r"\frac{{V^{ab}_{ij}} {V^{ij}_{ab}}}{\left({e_{a}} + {e_{b}} - {e_{i}} - {e_{j}}\right)^{2}} + \frac{{V^{ab}_{ij}} {f^{i}_{k}} {V^{kj}_{ab}}}{\left({e_{a}} + {e_{b}} - {e_{i}} - {e_{j}}\right) \left({e_{a}} + {e_{b}} - {e_{k}} - {e_{j}}\right)}",  # noqa: E501
    "spin2": r"{V^{ij}_{ab}} {t1^{ab}_{ij}} + {f^{i}_{a}} {t2^{a}_{i}} - \frac{{V^{ia}_{jb}} {t2^{b}_{i}} {t2cc^{a}_{j}}}{2}",  # noqa: E501
    "code3": r"{V^{kl}_{cd}} {t1^{ac}_{ik}} {t1^{bd}_{jl}} - \frac{{V^{kl}_{ij}} {t1^{ab}_{kl}}}{2} + {f^{a}_{c}} {t1^{bc}_{ij}}",  # noqa: E501
    "pairs": r"{Y^{a}_{i}} {V^{ja}_{ce}} {X^{b}_{j}} {V^{ib}_{cd}} - \frac{{Y^{a}_{i}} {V^{ja}_{cd}} {X^{b}_{j}} {V^{ib}_{ce}}}{2}",  # noqa: E501
    "retarget": r"{f^{j}_{k}} {Y^{a}_{j}} {X^{a}_{k}} + {f^{k}_{j}} {Y^{a}_{k}} {X^{a}_{j}} + {V^{jk}_{bc}} {t1^{bc}_{jk}} {d^{a}_{a}}",  # noqa: E501
    "dterm": r"{d^{i}_{a}} {t2^{a}_{i}} + \frac{{d^{i}_{j}} {t1^{ab}_{jk}} {t1cc^{ab}_{ik}}}{2} - {d^{a}_{b}} {t2^{b}_{i}} {t2cc^{a}_{i}}",  # noqa: E501
    "wick3": r"{a^\dagger_{i}} {a_{a}} {f^{p}_{q}} {a^\dagger_{p}} {a_{q}} {t1^{bc}_{jk}} {a^\dagger_{b}} {a^\dagger_{c}} {a_{k}} {a_{j}}",  # noqa: E501
}


TXT["t2_2_shared"] = TXT["t2_2_like"].replace("{V^{ij}_{ab}}", "{V^{ab}_{kl}}")
# V^{ab}_{ij} t2_2^{cd}_{ij} with the doubles fully expanded and symmetry-equivalent terms merged
# (4 terms): factoring it has to spread a term onto the equivalent terms of the intermediate
TXT["t2_2_sym4"] = (
    r"- \frac{{V^{cd}_{ef}} {V^{ij}_{ab}} {V^{ij}_{ef}}}{2 \left({e_{c}} + {e_{d}} - {e_{i}} - {e_{j}}\right) \left({e_{e}} + {e_{f}} - {e_{i}} - {e_{j}}\right)} "  # noqa: E501
    r"+ \frac{2 {V^{ie}_{kc}} {V^{ij}_{ab}} {V^{jk}_{de}}}{\left({e_{c}} + {e_{d}} - {e_{i}} - {e_{j}}\right) \left({e_{d}} + {e_{e}} - {e_{j}} - {e_{k}}\right)} "  # noqa: E501
    r"+ \frac{2 {V^{ij}_{ab}} {V^{ik}_{ce}} {V^{je}_{kd}}}{\left({e_{c}} + {e_{d}} - {e_{i}} - {e_{j}}\right) \left({e_{c}} + {e_{e}} - {e_{i}} - {e_{k}}\right)} "  # noqa: E501
    r"- \frac{{V^{ij}_{ab}} {V^{ij}_{kl}} {V^{kl}_{cd}}}{2 \left({e_{c}} + {e_{d}} - {e_{i}} - {e_{j}}\right) \left({e_{c}} + {e_{d}} - {e_{k}} - {e_{l}}\right)}")  # noqa: E501


def imp(w, key, real=False, targets=None):
    from adcgen import import_from_sympy_latex
    e = import_from_sympy_latex(TXT[key], convert_default_names=True)
    if real:
        e.make_real()
    if targets is not None:
        e.set_target_idx(targets)
    return e


def imp_spin(w, key, pattern, real=False, targets=None):
    """the text ``key`` with spin labels on every index: pattern 'a' (all alpha), 'b', or
    'm' (alternating by letter position: i,a alpha; j,b beta; ...)"""
    import re
    from adcgen import import_from_sympy_latex, get_symbols

    def spin_of(name):
        if pattern in "ab":
            return pattern
        pos = max("ijklmno".find(name[0]), "abcdefgh".find(name[0]), "pqrstuvw".find(name[0]))
        return "ab"[pos % 2]

    def label(m):
        names = re.findall(r"[a-z][0-9]*", m.group(2))
        greek = {"a": "\\alpha", "b": "\\beta"}
        return m.group(1) + "{" + "".join(
            n + "_{" + greek[spin_of(n)] + "}" for n in names) + "}"
    txt = re.sub(r"([\^_])\{((?:[a-z][0-9]*)+)\}", label, TXT[key])
    e = import_from_sympy_latex(txt, convert_default_names=True)
    if real:
        e.make_real()
    if targets is not None:
        names = re.findall(r"[a-z][0-9]*", targets)
        e.set_target_idx(get_symbols(names, [spin_of(n) for n in names]) if names else "")
    return e


def _num_name(n):
    """numbered spelling of some of the letters (numbers below the generic generations)"""
    return {"j": "j1", "k": "k2", "b": "b1", "c": "c2", "l": "l1", "d": "d2"}.get(n, n)


def imp_num(w, key, real=False, targets=None):
    """the text ``key`` with numbered names for some of its indices (i stays i, j -> j1,
    k -> k2, ...): the same request on names with digits"""
    import re
    from adcgen import import_from_sympy_latex

    def label(m):
        names = re.findall(r"[a-z][0-9]*", m.group(2))
        return m.group(1) + "{" + "".join(_num_name(n) for n in names) + "}"
    txt = re.sub(r"([\^_])\{((?:[a-z][0-9]*)+)\}", label, TXT[key])
    e = import_from_sympy_latex(txt, convert_default_names=True)
    if real:
        e.make_real()
    if targets is not None:
        e.set_target_idx("".join(_num_name(n) for n in targets))
    return e


# spin-labelled twins of requests on plain indices: same names, other index objects
for _key, _tg in (("sym3", "ia"), ("perm_sym", "ijab"), ("alpha3", "")):
    for _pat in ("a", "m"):
        def _mk(key, tg, pat):
            plain = f"expr.spintwin.plain({key})"
            if plain not in BY_ID:
                @tmpl(plain, "expr", None, cost=2)
                def _(w):
                    from adcgen import simplify
                    e = imp(w, key, targets=tg)
                    sym = [[(str(k), v) for k, v in t.symmetry().items()] for t in e.terms]
                    osym = [[(str(k), v) for k, v in o.symmetry().items()]
                            for t in e.terms for o in t.objects]
                    return [sym, osym, str(simplify(e)), str(e.copy().substitute_contracted())]
            vid = f"expr.spintwin.{pat}({key})"
            NAMEVAR.setdefault(plain, []).append(vid)

            @tmpl(vid, "expr", None, cost=2)
            def _(w):
                from adcgen import simplify
                e = imp_spin(w, key, pat, targets=tg)
                sym = [[(str(k), v) for k, v in t.symmetry().items()] for t in e.terms]
                osym = [[(str(k), v) for k, v in o.symmetry().items()]
                        for t in e.terms for o in t.objects]
                return [sym, osym, str(simplify(e)), str(e.copy().substitute_contracted())]
        _mk(_key, _tg, _pat)


# ----------------------------------------------------------------------------- operators
for _v in ("mp", "re"):
    def _mk(v):
        @tmpl(f"op.{v}.h0", f"{v}", "", fp=False)
        def _(w): return w.op(v).h0

        @tmpl(f"op.{v}.h1", f"{v}", "", fp=False)
        def _(w): return w.op(v).h1

        for n, m in ((1, 1), (2, 2), (1, 0), (2, 1), (1, 2), (0, 1)):
            def _mk2(n, m):
                @tmpl(f"op.{v}.operator({n},{m})", f"{v}", "", fp=False)
                def _(w): return w.call(w.op(v), "operator", n, m)
            _mk2(n, m)
    _mk(_v)


# ----------------------------------------------------------------------------- ground state
def _gs_templates(v, s):
    c = f"{v}{'s' if s else ''}"
    tag = f"gs.{c}"
    for o in (0, 1, 2):
        def _mk(o):
            @tmpl(f"{tag}.energy({o})", c, "")
            def _(w): return w.call(w.gs(v, s), "energy", o)
        _mk(o)
    for o in (1, 2):
        for bk in ("bra", "ket"):
            def _mk(o, bk):
                @tmpl(f"{tag}.psi({o},{bk})", c, "", fresh="psi", fp=False)
                def _(w): return w.call(w.gs(v, s), "psi", o, bk)
            _mk(o, bk)
    amps = [(1, "pphh", "ijab", "q"), (1, "pphh", "klcd", "q"), (2, "ph", "ia", "q"),
            (2, "ph", "jb", "q"), (1, "pphh", "i1j1a2b2", "q"), (2, "pphh", "ijab", "t"),
            (1, "ph", "ia", "q"), (2, "ph", "k3c3", "q"), (1, "pphh", "jiab", "q"),
            (2, "ph", "ja", "q")]
    NAMEVAR[f"{tag}.amplitude(1,pphh,ijab)"] = [f"{tag}.amplitude(1,pphh,{x})"
                                                for x in ("klcd", "jiab", "i1j1a2b2")]
    NAMEVAR[f"{tag}.amplitude(2,ph,ia)"] = [f"{tag}.amplitude(2,ph,{x})"
                                            for x in ("jb", "ja", "k3c3")]
    for o, sp, idx, tier in amps:
        def _mk(o, sp, idx, tier):
            @tmpl(f"{tag}.amplitude({o},{sp},{idx})", c, idx, tier=tier,
                  cost=3 if o == 2 else 1)
            def _(w): return w.call(w.gs(v, s), "amplitude", o, sp, idx)
        _mk(o, sp, idx, tier)

    # pure order bookkeeping (cheap up to high orders)
    for o in (2, 3, 4, 5, 6):
        def _mk(o):
            @tmpl(f"{tag}.expand_norm_factor({o})", c, None)
            def _(w): return str(w.call(w.gs(v, s), "expand_norm_factor", o))
        _mk(o)

    @tmpl(f"{tag}.expand_norm_factor(6,min_order=3)", c, None)
    def _(w): return str(w.call(w.gs(v, s), "expand_norm_factor", 6, 3))

    @tmpl(f"{tag}.norm_factor(3)", c, "", fresh="norm")
    def _(w): return w.call(w.gs(v, s), "norm_factor", 3)

    @tmpl(f"{tag}.norm_factor(4)", c, "", fresh="norm", cost=3, tier="q" if c == "mp" else "t")
    def _(w): return w.call(w.gs(v, s), "norm_factor", 4)

    @tmpl(f"{tag}.overlap(2)", c, "")
    def _(w): return w.call(w.gs(v, s), "overlap", 2)

    @tmpl(f"{tag}.norm_factor(2)", c, "", fresh="norm")
    def _(w): return w.call(w.gs(v, s), "norm_factor", 2)

    for o in (0, 1, 2):
        def _mk(o):
            @tmpl(f"{tag}.expectation_value({o},1)", c, "", cost=2 if o == 2 else 1)
            def _(w): return w.call(w.gs(v, s), "expectation_value", o, 1)
        _mk(o)
    # argument-permuted twin of expectation_value(2,1)

    @tmpl(f"{tag}.expectation_value(1,2)", c, "")
    def _(w): return w.call(w.gs(v, s), "expectation_value", 1, 2)


_gs_templates("mp", False)
_gs_templates("mp", True)
_gs_templates("re", False)


# ----------------------------------------------------------------------------- ISR
def _isr_templates(v, kind, space, idx, idx2, orders=(0, 1, 2), tier="q"):
    c = f"{v}.{kind}"
    tag = f"isr.{c}"
    block = f"{space},{space}"
    bidx = f"{idx},{idx2}"
    for o in orders:
        for bk in ("bra", "ket"):
            def _mk(o, bk):
                @tmpl(f"{tag}.precursor({o},{space},{bk},{idx})", c, idx, tier=tier,
                      fp=False)
                def _(w): return w.call(w.isr(v, kind), "precursor", o, space, bk, idx)
            _mk(o, bk)

        def _mk(o):
            @tmpl(f"{tag}.overlap_precursor({o},{block},{bidx})", c, idx + idx2,
                  tier=tier, cost=2 if o == 2 else 1)
            def _(w): return w.call(w.isr(v, kind), "overlap_precursor", o, block, bidx)

            @tmpl(f"{tag}.s_root({o},{block},{bidx})", c, idx + idx2, tier=tier,
                  cost=2 if o == 2 else 1)
            def _(w): return w.call(w.isr(v, kind), "s_root", o, block, bidx)

            @tmpl(f"{tag}.intermediate_state({o},{space},ket,{idx})", c, idx,
                  tier=tier, cost=3 if o == 2 else 1, fp=False)
            def _(w): return w.call(w.isr(v, kind), "intermediate_state", o, space, "ket", idx)

            @tmpl(f"{tag}.overlap_isr({o},{block},{bidx})", c, idx + idx2,
                  tier="t" if o == 2 else tier, cost=4 if o == 2 else 1)
            def _(w): return w.call(w.isr(v, kind), "overlap_isr", o, block, bidx)
        _mk(o)

    for o in (2, 4, 5, 6):
        def _mk(o):
            @tmpl(f"{tag}.expand_S_taylor({o})", c, None)
            def _(w): return str(w.call(w.isr(v, kind), "expand_S_taylor", o))
        _mk(o)

    @tmpl(f"{tag}.expand_S_taylor(6,min_order=3)", c, None)
    def _(w): return str(w.call(w.isr(v, kind), "expand_S_taylor", 6, 3))

    @tmpl(f"{tag}.amplitude_vector({idx},right)", c, idx)
    def _(w): return w.call(w.isr(v, kind), "amplitude_vector", idx, "right")


_isr_templates("mp", "pp", "ph", "ia", "jb")
_isr_templates("mp", "ip", "h", "i", "j")
_isr_templates("mp", "ea", "p", "a", "b")
_isr_templates("re", "pp", "ph", "ia", "jb", orders=(0, 1), tier="t")
_isr_templates("mp", "dip", "hh", "ij", "kl", orders=(0, 1), tier="t")


# the same request with other target index names: the two slots exchanged, crossed,
# chained, disjoint, and a permutation within a slot.  NAMEVAR[base id] = variant ids.


def _namevar_templates(v, kind, space, base, variants, orders, tier="q"):
    c = f"{v}.{kind}"
    block = f"{space},{space}"
    for o in orders:
        for meth, obj, tg in (("overlap_precursor", "isr", f"isr.{c}"),
                              ("s_root", "isr", f"isr.{c}"),
                              ("precursor_matrix_block", "m", f"m.{c}"),
                              ("isr_matrix_block", "m", f"m.{c}")):
            if obj == "m" and (o > 1 or kind not in ("pp", "ip")):
                continue
            if meth == "s_root" and o == 0:
                continue
            base_id = f"{tg}.{meth}({o},{block},{base[0]},{base[1]})"
            if base_id not in BY_ID:
                continue
            for a, b in variants:
                def _mk(o, meth, obj, a, b):
                    vid = f"{tg}.{meth}({o},{block},{a},{b})"
                    NAMEVAR.setdefault(base_id, []).append(vid)

                    @tmpl(vid, c, a + b, tier=tier, cost=2 if o == 2 else 1)
                    def _(w):
                        o_ = w.isr(v, kind) if obj == "isr" else w.m(v, kind)
                        return w.call(o_, meth, o, block, f"{a},{b}")
                _mk(o, meth, obj, a, b)


_namevar_templates("mp", "pp", "ph", ("ia", "jb"),
                   [("jb", "ia"), ("ja", "ib"), ("jb", "kc"), ("kc", "ld")], (1, 2))
_namevar_templates("mp", "ip", "h", ("i", "j"), [("j", "i"), ("j", "k"), ("k", "l")], (1, 2))
_namevar_templates("mp", "ea", "p", ("a", "b"), [("b", "a"), ("b", "c")], (2,))


@tmpl("isr.mp.pp.overlap_precursor(0,pphh,pphh,ijab,klcd)", "mp.pp", "ijabklcd")
def _(w): return w.call(w.isr("mp", "pp"), "overlap_precursor", 0, "pphh,pphh", "ijab,klcd")


for _a, _b in (("jiab", "klcd"), ("klcd", "ijab"), ("ijba", "lkcd"), ("ikac", "jlbd")):
    def _mk(a, b):
        vid = f"isr.mp.pp.overlap_precursor(0,pphh,pphh,{a},{b})"
        NAMEVAR.setdefault("isr.mp.pp.overlap_precursor(0,pphh,pphh,ijab,klcd)", []).append(vid)

        @tmpl(vid, "mp.pp", a + b)
        def _(w): return w.call(w.isr("mp", "pp"), "overlap_precursor", 0, "pphh,pphh",
                                f"{a},{b}")
    _mk(_a, _b)


# ----------------------------------------------------------------------------- secular matrix
def _m_templates(v, kind, space, idx, idx2, orders=(0, 1, 2)):
    c = f"{v}.{kind}"
    tag = f"m.{c}"
    block = f"{space},{space}"
    bidx = f"{idx},{idx2}"
    for o in orders:
        def _mk(o):
            @tmpl(f"{tag}.precursor_matrix_block({o},{block},{bidx})", c, idx + idx2,
                  cost=6 if o == 2 else 1, tier="t" if (o == 2 and kind == "pp") else "q")
            def _(w): return w.call(w.m(v, kind), "precursor_matrix_block", o, block, bidx)

            @tmpl(f"{tag}.isr_matrix_block({o},{block},{bidx})", c, idx + idx2,
                  cost=8 if o == 2 else 1, tier="q" if (o < 2 or kind != "pp") else "q")
            def _(w): return w.call(w.m(v, kind), "isr_matrix_block", o, block, bidx)

            @tmpl(f"{tag}.mvp_block_order({o},{space},{block},{idx})", c, idx,
                  cost=8 if o == 2 else 1, tier="t" if o == 2 else "q")
            def _(w): return w.call(w.m(v, kind), "mvp_block_order", o, space, block, idx)
        _mk(o)

    @tmpl(f"{tag}.mvp(1,{space},{idx})", c, idx, cost=2)
    def _(w): return w.call(w.m(v, kind), "mvp", 1, space, idx)

    @tmpl(f"{tag}.expectation_value(1)", c, "", cost=2)
    def _(w): return w.call(w.m(v, kind), "expectation_value", 1)


_m_templates("mp", "pp", "ph", "ia", "jb")
_m_templates("mp", "ip", "h", "i", "j")


@tmpl("m.mp.pp.isr_matrix_block(1,ph,pphh,ia,jkbc)", "mp.pp", "iajkbc", cost=3, tier="t")
def _(w): return w.call(w.m("mp", "pp"), "isr_matrix_block", 1, "ph,pphh", "ia,jkbc")


@tmpl("m.mp.pp.isr_matrix_block(0,pphh,pphh,ijab,klcd)", "mp.pp", "ijabklcd", cost=3,
      tier="t")
def _(w): return w.call(w.m("mp", "pp"), "isr_matrix_block", 0, "pphh,pphh", "ijab,klcd")


# ----------------------------------------------------------------------------- properties
for _o in (0, 1, 2):
    def _mk(o):
        @tmpl(f"prop.mp.pp.expectation_value({o},1)", "mp.pp", "", cost=6 if o == 2 else 2,
              tier="t" if o == 2 else "q")
        def _(w): return w.call(w.prop("mp", "pp"), "expectation_value", adc_order=o, n_particles=1)

        @tmpl(f"prop.mp.pp.trans_moment({o})", "mp.pp", "", cost=4 if o == 2 else 1,
              tier="t" if o == 2 else "q")
        def _(w): return w.call(w.prop("mp", "pp"), "trans_moment", adc_order=o, n_create=1,
                                                        n_annihilate=1)
    _mk(_o)


for _kind, _nc, _na in (("ip", 0, 1), ("ea", 1, 0)):
    def _mk(kind, nc, na):
        for o in (0, 1, 2):
            @tmpl(f"prop.mp.{kind}.expectation_value({o},1)", f"mp.{kind}", "",
                  cost=4 if o == 2 else 1, tier="t" if o == 2 else "q")
            def _(w, o=o): return w.call(w.prop("mp", kind), "expectation_value",
                                         adc_order=o, n_particles=1)

            @tmpl(f"prop.mp.{kind}.trans_moment({o})", f"mp.{kind}", "",
                  cost=3 if o == 2 else 1, tier="t" if o == 2 else "q")
            def _(w, o=o): return w.call(w.prop("mp", kind), "trans_moment", adc_order=o,
                                         n_create=nc, n_annihilate=na)
    _mk(_kind, _nc, _na)


@tmpl("prop.mp.pp.trans_moment(1,subtract_gs=False)", "mp.pp", "", cost=2)
def _(w): return w.call(w.prop("mp", "pp"), "trans_moment", adc_order=1, n_create=1,
                        n_annihilate=1, subtract_gs=False)


@tmpl("prop.mp.pp.expectation_value(1,1,subtract_gs=False)", "mp.pp", "", cost=2)
def _(w): return w.call(w.prop("mp", "pp"), "expectation_value", adc_order=1, n_particles=1,
                        subtract_gs=False)


@tmpl("m.mp.pp.isr_matrix_block(1,ph,ph,ia,jb,subtract_gs=False)", "mp.pp", "iajb", cost=2)
def _(w): return w.call(w.m("mp", "pp"), "isr_matrix_block", 1, "ph,ph", "ia,jb", False)


@tmpl("prop.mp.pp-ip.expectation_value(1,1)", "mp.pp", "", cost=2)
def _(w):
    from adcgen import Properties
    p = w._get(("prop2", "mp", "pp", "ip"),
               lambda: Properties(w.isr("mp", "pp"), w.isr("mp", "ip")))
    return w.call(p, "expectation_value", adc_order=1, n_particles=1)


@tmpl("prop.mp.ip-pp.trans_moment_space(1,h)", "mp.ip", "", cost=2)
def _(w):
    from adcgen import Properties
    p = w._get(("prop2", "mp", "ip", "pp"),
               lambda: Properties(w.isr("mp", "ip"), w.isr("mp", "pp")))
    return w.call(p, "trans_moment_space", order=1, space="h", n_create=0, n_annihilate=1)


_m_templates("mp", "ea", "p", "a", "b")


# ----------------------------------------------------------------------------- intermediates
_ITMD = [("t2_1", "ijab", "klcd"), ("t1_2", "ia", "jb"), ("t2_2", "ijab", "klcd"),
         ("t3_2", "ijkabc", "lmndef"), ("t4_2", "ijklabcd", "mnoiefgh"),
         ("t1_3", "ia", "kc"), ("t2_3", "ijab", "klcd"),
         ("t2_1_re_residual", "ijab", "klcd"), ("t1_2_re_residual", "ia", "jb"),
         ("t2_2_re_residual", "ijab", "klcd"),
         ("p0_2_oo", "ij", "kl"), ("p0_2_vv", "ab", "cd"), ("p0_3_oo", "ij", "kl"),
         ("p0_3_ov", "ia", "jb"), ("p0_3_vv", "ab", "cd"),
         ("t2eri_1", "ijka", "klmc"), ("t2eri_2", "ijka", "klmc"), ("t2eri_3", "ijab", "klcd"),
         ("t2eri_4", "ijab", "klcd"), ("t2eri_5", "ijab", "klcd"), ("t2eri_6", "iabc", "jbcd"),
         ("t2eri_7", "iabc", "kcde"), ("t2eri_A", "ijka", "lmnc"), ("t2eri_B", "iabc", "jdef"),
         ("t2sq", "iajb", "kcld")]
# full expansion costs seconds for these: thorough tier only
_ITMD_HEAVY_FULL = ("t2_3", "p0_3_ov", "t2_2_re_residual")
_ITMD_NO_SYMMETRY = ("t3_2", "t4_2", "t2_3")      # Term.symmetry is factorial in the indices
for _name, _d, _alt in _ITMD:
    def _mk(name, d, alt):
        for idx in (d, alt):
            for full in (True, False):
                heavy = full and name in _ITMD_HEAVY_FULL
                tier = "t" if (heavy or (idx == alt and full)) else "q"

                def _mk2(idx, full, tier, heavy):
                    @tmpl(f"itmd.{name}.expand_itmd({idx},{'full' if full else 'once'})",
                          "itmd", idx, tier=tier, cost=6 if heavy else 2)
                    def _(w):
                        from adcgen import Intermediates
                        return Intermediates().available[name].expand_itmd(
                            idx, fully_expand=full)
                _mk2(idx, full, tier, heavy)

        # target names of a generation that has not been produced yet, given as a string
        num = {"t1_2": ("j3a", "i3a3"), "t2_2": ("i3j3ab",), "p0_2_oo": ("i3j3",),
               "p0_2_vv": ("a3b3",), "t1_3": ("i4a",)}.get(name, ())
        for idx in num:
            def _mk3(idx):
                @tmpl(f"itmd.{name}.expand_itmd({idx},once)", "itmd", idx,
                      cost=2 if name != "t1_3" else 4, tier="q" if name != "t1_3" else "t")
                def _(w):
                    from adcgen import Intermediates
                    return Intermediates().available[name].expand_itmd(idx, fully_expand=False)
            _mk3(idx)

        @tmpl(f"itmd.{name}.tensor({alt})", "itmd", alt)
        def _(w):
            from adcgen import Intermediates
            return Intermediates().available[name].tensor(alt)

        if name not in _ITMD_NO_SYMMETRY:
            @tmpl(f"itmd.{name}.tensor_symmetry", "itmd", None)
            def _(w):
                from adcgen import Intermediates
                sym = Intermediates().available[name].tensor_symmetry
                return [(str(k), v) for k, v in sym.items()]

        @tmpl(f"itmd.{name}.allowed_spin_blocks", "itmd", None, cost=2,
              tier="t" if name in ("t4_2", "t2_3", "t3_2") else "q")
        def _(w):
            from adcgen import Intermediates
            return sorted(Intermediates().available[name].allowed_spin_blocks)
    _mk(_name, _d, _alt)


# ----------------------------------------------------------------------------- expression level
@tmpl("expr.simplify(alpha2)", "expr", "ia")
def _(w):
    from adcgen import simplify
    return simplify(imp(w, "alpha2", targets="ia"))


@tmpl("expr.simplify(alpha3)", "expr", "")
def _(w):
    from adcgen import simplify
    return simplify(imp(w, "alpha3", targets=""))


@tmpl("expr.simplify(alpha3,real)", "expr", "")
def _(w):
    from adcgen import simplify
    return simplify(imp(w, "alpha3", real=True, targets=""))


@tmpl("expr.evaluate_deltas(deltas)", "expr", "ia")
def _(w):
    from adcgen import evaluate_deltas
    return evaluate_deltas(imp(w, "deltas").sympy, target_idx="ia")


@tmpl("expr.evaluate_deltas(deltas_t)", "expr", "ijackb")
def _(w):
    from adcgen import evaluate_deltas
    return evaluate_deltas(imp(w, "deltas_t").sympy, target_idx="ijackb")


@tmpl("expr.wicks(opstring)", "expr", "ia", fp=False)
def _(w):
    from adcgen import wicks
    return wicks(imp(w, "opstring").sympy, simplify_kronecker_deltas=True)


@tmpl("expr.wicks(opstring2)", "expr", "iajb")
def _(w):
    from adcgen import wicks
    return wicks(imp(w, "opstring2").sympy, simplify_kronecker_deltas=True)


# bare operator strings: general indices stay as targets of the result (Einstein convention,
# no explicit target set); the literal text after the library's own renaming is compared
TXT["opbare2"] = r"{a^\dagger_{p}} {a_{q}}"
TXT["opbare4"] = r"{a_{p}} {a^\dagger_{q}} {a^\dagger_{r}} {a_{s}}"
TXT["opbare_mixed"] = r"{a_{p}} {a^\dagger_{q}} {a^\dagger_{a}} {a_{i}}"
for _k in ("opbare2", "opbare4", "opbare_mixed"):
    for _d in (True, False):
        def _mk(k, d):
            @tmpl(f"expr.wicks({k},{'deltas' if d else 'nodeltas'},einstein)", "expr", None)
            def _(w):
                from adcgen import wicks, Expr
                r = wicks(imp(w, k).sympy, simplify_kronecker_deltas=d)
                e = r if hasattr(r, "substitute_contracted") else Expr(r)
                return [str(r), str(e.substitute_contracted())]
        _mk(_k, _d)


@tmpl("expr.wicks(opgen)", "expr", "")
def _(w):
    from adcgen import wicks
    return wicks(imp(w, "opgen").sympy, simplify_kronecker_deltas=False)


@tmpl("expr.wicks(opgen,deltas)", "expr", "")
def _(w):
    from adcgen import wicks
    return wicks(imp(w, "opgen").sympy, simplify_kronecker_deltas=True)


# linearly dependent denominator brackets: the numerator can be cancelled in more than one
# way, which of the equivalent forms is returned must not depend on set / hash order
TXT["dep4"] = (
    r"\frac{\left({e_{i}} + {e_{j}} + {e_{k}} + {e_{l}} - {e_{a}} - {e_{b}} - {e_{c}} - {e_{d}}\right) {V^{ij}_{ab}} {V^{kl}_{cd}}}"  # noqa: E501
    r"{\left({e_{i}} + {e_{j}} - {e_{a}} - {e_{b}}\right) \left({e_{k}} + {e_{l}} - {e_{c}} - {e_{d}}\right) \left({e_{i}} + {e_{k}} - {e_{a}} - {e_{c}}\right) \left({e_{j}} + {e_{l}} - {e_{b}} - {e_{d}}\right)}")  # noqa: E501
TXT["dep4x"] = TXT["dep4"].replace("{V^{ij}_{ab}} {V^{kl}_{cd}}", "{X^{ijkl}_{abcd}}")
TXT["dep3"] = (
    r"\frac{\left({e_{i}} + {e_{j}} - {e_{a}} - {e_{b}}\right) {V^{ij}_{ab}} {Y^{a}_{i}} {Y^{b}_{j}}}"  # noqa: E501
    r"{\left({e_{i}} - {e_{a}}\right) \left({e_{j}} - {e_{b}}\right) \left({e_{i}} + {e_{j}} - {e_{a}} - {e_{b}}\right)^{2}}")  # noqa: E501
# contracted indices with a gap below them (j, b unused) next to the generic indices that
# expand_intermediates / norm_factor bring in: renaming chains  k -> j, <generic> -> k
TXT["gap_kc"] = r"{V^{ka}_{ic}} {t2^{c}_{k}}"
TXT["gap_me"] = r"{V^{ma}_{ie}} {t2^{e}_{m}} + {V^{la}_{id}} {t2^{d}_{l}}"
TXT["gap_ld"] = r"{V^{lm}_{de}} {t1^{de}_{lm}} {t2^{a}_{i}}"
TXT["gap_kcY"] = r"{V^{ka}_{ic}} {Y^{c}_{k}}"
TXT["gap_ldY"] = r"{V^{la}_{id}} {Y^{d}_{l}} {f^{m}_{m}}"

# fractions with an orbital energy numerator of non-canonical sign
TXT["num_t2"] = (r"\frac{\left({e_{a}} - {e_{i}}\right) {V^{jk}_{bc}} {X^{bc}_{jk}}}"
                 r"{{e_{b}} + {e_{c}} - {e_{j}} - {e_{k}}}")
TXT["num_t2b"] = (r"\frac{\left({e_{a}} + {e_{b}} - {e_{i}}\right) {V^{jk}_{bc}} {Y^{c}_{k}}}"
                  r"{\left({e_{b}} + {e_{c}} - {e_{j}} - {e_{k}}\right) \left({e_{a}} - {e_{i}}\right)}"
                  r" - \frac{\left({e_{j}} - {e_{b}}\right) {V^{ij}_{ab}}}{{e_{a}} + {e_{b}} - {e_{i}} - {e_{j}}}")
for _k, _tg in (("num_t2", "ia"), ("num_t2b", "ijab")):
    def _mk(k, tg):
        @tmpl(f"expr.eri_orbenergy({k})", "expr", None)
        def _(w):
            from adcgen import EriOrbenergy
            e = imp(w, k, real=True, targets=tg)
            out = []
            for t in e.terms:
                x = EriOrbenergy(t)
                out.append([str(x.pref), str(x.num), str(x.denom), str(x.eri),
                            str(x.canonicalize_sign()), str(EriOrbenergy(t).expr)])
            return out

        @tmpl(f"expr.factor_intermediates({k},t2_1)", "expr", tg, cost=2)
        def _(w):
            from adcgen import factor_intermediates
            return factor_intermediates(imp(w, k, real=True, targets=tg), types_or_names="t2_1")

        @tmpl(f"expr.reduce_expr({k})", "expr", tg, cost=2)
        def _(w):
            from adcgen import reduce_expr
            return reduce_expr(imp(w, k, real=True, targets=tg))
    _mk(_k, _tg)


for _k in ("dep4", "dep4x", "dep3"):
    def _mk(k):
        @tmpl(f"expr.cancel_orb_energy_frac({k})", "expr", "")
        def _(w):
            from adcgen import EriOrbenergy
            e = imp(w, k, real=True, targets="")
            return EriOrbenergy(e.terms[0]).cancel_orb_energy_frac()

        @tmpl(f"expr.reduce_expr({k})", "expr", "", cost=2)
        def _(w):
            from adcgen import reduce_expr
            return reduce_expr(imp(w, k, real=True, targets=""))
    _mk(_k)

for _k in ("gap_kc", "gap_me", "gap_ld"):
    def _mk(k):
        @tmpl(f"expr.expand_substitute({k})", "expr", "ia")
        def _(w):
            e = imp(w, k, targets="ia").expand_intermediates(fully_expand=False)
            return e.substitute_contracted()

        @tmpl(f"expr.expand_simplify({k})", "expr", "ia", cost=2)
        def _(w):
            from adcgen import simplify
            return simplify(imp(w, k, real=True, targets="ia").expand_intermediates())
    _mk(_k)

for _k in ("gap_kcY", "gap_ldY"):
    def _mk(k):
        @tmpl(f"expr.norm_times({k})", "mp", "ia")
        def _(w):
            from adcgen import Expr
            nf = w.call(w.gs("mp", False), "norm_factor", 2)
            nf = getattr(nf, "sympy", nf)
            return Expr(nf * imp(w, k).sympy, target_idx="ia").substitute_contracted()
    _mk(_k)


@tmpl("expr.expand_intermediates(itmds)", "expr", "", cost=2)
def _(w):
    return imp(w, "itmds", targets="").expand_intermediates()


@tmpl("expr.expand_intermediates(itmds,once)", "expr", "", cost=2)
def _(w):
    return imp(w, "itmds", targets="").expand_intermediates(fully_expand=False)


for _types in ("t2_1", "t2_2", ["t2_1", "t2_2"], ["t2_1", "t1_2", "t2_2"]):
    def _mk(types):
        label = types if isinstance(types, str) else "+".join(types)

        @tmpl(f"expr.factor_intermediates(t2_2_like,{label})", "expr", "ijklabcd", cost=6,
              tier="q" if label in ("t2_2", "t2_1+t2_2") else "t")
        def _(w):
            from adcgen import factor_intermediates
            e = imp(w, "t2_2_like", real=True, targets="ijklabcd")
            return factor_intermediates(e, types_or_names=types)
    _mk(_types)


for _types in ("t2_2", ["t2_1", "t2_2"]):
    def _mk(types):
        label = types if isinstance(types, str) else "+".join(types)

        @tmpl(f"expr.factor_intermediates(t2_2_shared,{label})", "expr", "abcd", cost=6)
        def _(w):
            from adcgen import factor_intermediates
            e = imp(w, "t2_2_shared", real=True, targets="abcd")
            return factor_intermediates(e, types_or_names=types)

        @tmpl(f"expr.factor_intermediates(t2_2_sym4,{label})", "expr", "abcd", cost=4)
        def _(w):
            from adcgen import factor_intermediates
            e = imp(w, "t2_2_sym4", real=True, targets="abcd")
            return factor_intermediates(e, types_or_names=types)
    _mk(_types)


@tmpl("expr.factor_intermediates(t2_1x,t2_1)", "expr", "")
def _(w):
    from adcgen import factor_intermediates
    return factor_intermediates(imp(w, "t2_1x", real=True, targets=""),
                                types_or_names="t2_1")


@tmpl("expr.factor_intermediates(mp2,all)", "expr", "", cost=3)
def _(w):
    from adcgen import factor_intermediates
    return factor_intermediates(imp(w, "mp2", real=True, targets=""))


@tmpl("expr.reduce_expr(itmds)", "expr", "", cost=3)
def _(w):
    from adcgen import reduce_expr
    return reduce_expr(imp(w, "itmds", real=True, targets=""))


@tmpl("expr.remove_tensor(contr,Y)", "expr", None, cost=1)
def _(w):
    from adcgen import remove_tensor
    res = remove_tensor(imp(w, "contr", targets=""), w.names["right_adc_amplitude"])
    return {str(k): v for k, v in res.items()}


@tmpl("expr.derivative(deriv,t1cc)", "expr", None, cost=1)
def _(w):
    from adcgen import derivative
    res = derivative(imp(w, "deriv", targets=""), w.names["gs_amplitude"] + "1cc")
    return {str(k): v for k, v in res.items()}


for _wrt in ("2", "1cc", "2cc"):
    def _mk(wrt):
        @tmpl(f"expr.derivative(dterm,t{wrt})", "expr", None, cost=1)
        def _(w):
            from adcgen import derivative
            res = derivative(imp(w, "dterm", targets=""), w.names["gs_amplitude"] + wrt)
            return {str(k): v for k, v in res.items()}
    _mk(_wrt)


@tmpl("expr.sort.by_tensor_block(dterm,d)", "expr", None)
def _(w):
    from adcgen import sort
    res = sort.by_tensor_block(imp(w, "dterm", targets=""), w.names["operator"])
    return {str(k): v for k, v in res.items()}


@tmpl("expr.sort.by_tensor_block(fock,f)", "expr", None)
def _(w):
    from adcgen import sort
    res = sort.by_tensor_block(imp(w, "fock", targets="ia"), w.names["fock"])
    return {str(k): v for k, v in res.items()}


@tmpl("expr.sort.by_delta_types(deltas)", "expr", None)
def _(w):
    from adcgen import sort
    res = sort.by_delta_types(imp(w, "deltas", targets="ia"))
    return {str(k): v for k, v in res.items()}


@tmpl("expr.sort.exploit_perm_sym(contr2)", "expr", None, cost=2)
def _(w):
    from adcgen import sort
    res = sort.exploit_perm_sym(imp(w, "contr2", real=True, targets="ac"), "ac")
    return {str(k): v for k, v in res.items()}


@tmpl("expr.term_symmetry(sym3)", "expr", None)
def _(w):
    e = imp(w, "sym3", targets="ia")
    return [(str(k), v) for k, v in e.terms[0].symmetry().items()]


@tmpl("expr.term_symmetry(sym3,only_contracted)", "expr", None)
def _(w):
    e = imp(w, "sym3", targets="ia")
    return [(str(k), v) for k, v in w.call(e.terms[0], "symmetry", True, False).items()]


@tmpl("expr.term_symmetry(sym3,only_target)", "expr", None)
def _(w):
    e = imp(w, "sym3", targets="ia")
    t = e.terms[0]
    a = [(str(k), v) for k, v in w.call(t, "symmetry", False, True).items()]
    b = [(str(k), v) for k, v in w.call(t, "symmetry", True, False).items()]
    return [a, b]


@tmpl("expr.symbolic_denominators(mp2)", "expr", "")
def _(w):
    return imp(w, "mp2", targets="").use_symbolic_denominators()


@tmpl("expr.symbolic_roundtrip(t2_1x)", "expr", "")
def _(w):
    e = imp(w, "t2_1x", targets="").use_symbolic_denominators()
    return e.use_explicit_denominators()


@tmpl("expr.diagonalize_fock(fock)", "expr", "ia")
def _(w):
    return imp(w, "fock", targets="ia").diagonalize_fock()


@tmpl("expr.spatial(spin1,restricted)", "expr", None, cost=3)
def _(w):
    from adcgen import transform_to_spatial_orbitals
    return transform_to_spatial_orbitals(imp(w, "spin1", real=True), "ic", "aa",
                                         restricted=True)


@tmpl("expr.spatial(spin1,unrestricted,eri)", "expr", None, cost=3)
def _(w):
    from adcgen import transform_to_spatial_orbitals
    return transform_to_spatial_orbitals(imp(w, "spin1", real=True), "ic", "bb",
                                         restricted=False, expand_eri=True)


@tmpl("expr.simplify_unitary(unitary)", "expr", "")
def _(w):
    from adcgen import simplify_unitary
    return simplify_unitary(imp(w, "unitary", targets=""), "U")


def _scheme_repr(contractions):
    """scheme with the global contraction ids replaced by positions"""
    from adcgen import Contraction
    if isinstance(contractions, Contraction):
        contractions = [contractions]
    ids = {}
    for i, c in enumerate(contractions):
        ids[c.contraction_name] = f"#{i}"
    out = []
    for c in contractions:
        names = [ids.get(n, n) for n in c.names]
        unresolved = [n for n in c.names if Contraction.is_contraction(n) and n not in ids]
        out.append({"names": names, "indices": [[str(s) for s in t] for t in c.indices],
                    "target": [str(s) for s in c.target],
                    "contracted": [str(s) for s in c.contracted],
                    "unresolved": unresolved})
    return out


@tmpl("code.optimize_contractions(contr)", "expr", None)
def _(w):
    from adcgen import optimize_contractions
    e = imp(w, "contr", real=True, targets="ia")
    return _scheme_repr(optimize_contractions(e.terms[0], "ia"))


@tmpl("code.unoptimized_contraction(contr)", "expr", None)
def _(w):
    from adcgen import unoptimized_contraction
    e = imp(w, "contr", real=True, targets="ia")
    return _scheme_repr(unoptimized_contraction(e.terms[0], "ia"))


for _backend in ("einsum", "libtensor"):
    def _mk(backend):
        @tmpl(f"code.generate_code(contr2,{backend})", "expr", None, cost=2)
        def _(w):
            from adcgen import generate_code
            e = imp(w, "contr2", real=True, targets="ac")
            return generate_code(e, "ac", backend=backend)
    _mk(_backend)


@tmpl("expr.print_import_print(contr2)", "expr", "ac")
def _(w):
    from adcgen import import_from_sympy_latex
    e = imp(w, "contr2", targets="ac")
    return import_from_sympy_latex(str(e))


# ----------------------------------------------------------------------------- long-lived Expr objects
def shared(w, key, real=False):
    """an Expr object the user keeps around for the whole session (imported once per
    session); requests only ever change its provided target indices and inspect it"""
    k = ("expr", key, real)
    if k not in w.exprs:
        w.exprs[k] = imp(w, key, real=real)
    return w.exprs[k]


for _tg in ("", "a", "jk", "ajk", None):
    def _mk(tg):
        label = "einstein" if tg is None else (tg or "none")

        @tmpl(f"expr.shared.simplify(retarget,targets={label})", "expr", tg)
        def _(w):
            from adcgen import simplify
            e = shared(w, "retarget")
            e.set_target_idx(tg)
            return simplify(e)

        @tmpl(f"expr.shared.symmetry(retarget,targets={label})", "expr", None)
        def _(w):
            e = shared(w, "retarget")
            e.set_target_idx(tg)
            return [[(str(k), v) for k, v in t.symmetry(only_contracted=True).items()]
                    for t in e.terms]

        @tmpl(f"expr.shared.substitute_contracted(retarget,targets={label})", "expr", tg)
        def _(w):
            e = shared(w, "retarget")
            e.set_target_idx(tg)
            return e.copy().substitute_contracted()
    _mk(_tg)


# ----------------------------------------------------------------------------- more expression level
@tmpl("expr.simplify(big_simplify)", "expr", "", cost=2)
def _(w):
    from adcgen import simplify
    return simplify(imp(w, "big_simplify", targets=""))


@tmpl("expr.simplify(big_simplify,real)", "expr", "", cost=2)
def _(w):
    from adcgen import simplify
    return simplify(imp(w, "big_simplify", real=True, targets=""))


@tmpl("expr.simplify(perm_sym)", "expr", "ijab")
def _(w):
    from adcgen import simplify
    return simplify(imp(w, "perm_sym", targets="ijab"))


@tmpl("expr.sort.exploit_perm_sym(perm_sym)", "expr", None, cost=2)
def _(w):
    from adcgen import sort
    res = sort.exploit_perm_sym(imp(w, "perm_sym", real=True, targets="ijab"), "ijab")
    return {str(k): v for k, v in res.items()}


@tmpl("expr.sort.exploit_perm_sym(perm_sym,bra_ket)", "expr", None, cost=2)
def _(w):
    from adcgen import sort
    res = sort.exploit_perm_sym(imp(w, "perm_sym", real=True, targets="ijab"), "ijab", "ij,ab")
    return {str(k): v for k, v in res.items()}


@tmpl("expr.sort.by_tensor_target_indices(fock,X)", "expr", None)
def _(w):
    from adcgen import sort
    res = sort.by_tensor_target_indices(imp(w, "fock", targets="ia"),
                                        w.names["left_adc_amplitude"])
    return {str(k): v for k, v in res.items()}


@tmpl("expr.sort.by_tensor_target_block(fock,X)", "expr", None)
def _(w):
    from adcgen import sort
    res = sort.by_tensor_target_block(imp(w, "fock", targets="ia"),
                                      w.names["left_adc_amplitude"])
    return {str(k): v for k, v in res.items()}


@tmpl("expr.sort.by_delta_indices(deltas)", "expr", None)
def _(w):
    from adcgen import sort
    res = sort.by_delta_indices(imp(w, "deltas", targets="ia"))
    return {str(k): v for k, v in res.items()}


@tmpl("expr.remove_tensor(big_simplify,Y)", "expr", None, cost=2)
def _(w):
    from adcgen import remove_tensor
    res = remove_tensor(imp(w, "big_simplify", targets=""), w.names["right_adc_amplitude"])
    return {str(k): v for k, v in res.items()}


@tmpl("expr.derivative(big_simplify,t1cc)", "expr", None, cost=2)
def _(w):
    from adcgen import derivative
    res = derivative(imp(w, "big_simplify", targets=""), w.names["gs_amplitude"] + "1cc")
    return {str(k): v for k, v in res.items()}


@tmpl("expr.factor_intermediates(t1_2_once,t1_2)", "expr", "", cost=3)
def _(w):
    from adcgen import factor_intermediates
    return factor_intermediates(imp(w, "t1_2_once", real=True, targets=""),
                                types_or_names="t1_2")


@tmpl("expr.factor_intermediates(t1_2_once,t_amplitude)", "expr", "", cost=3)
def _(w):
    from adcgen import factor_intermediates
    return factor_intermediates(imp(w, "t1_2_once", real=True, targets=""),
                                types_or_names="t_amplitude")


@tmpl("expr.factor_intermediates(p0_2_mix,mp_density)", "expr", "", cost=3)
def _(w):
    from adcgen import factor_intermediates
    return factor_intermediates(imp(w, "p0_2_mix", real=True, targets=""),
                                types_or_names=["p0_2_oo", "p0_2_vv"])


@tmpl("expr.factor_intermediates(p0_2_mix,reversed)", "expr", "", cost=3)
def _(w):
    from adcgen import factor_intermediates
    return factor_intermediates(imp(w, "p0_2_mix", real=True, targets=""),
                                types_or_names=["p0_2_vv", "p0_2_oo"])


for _inp, _types in (("p0_2_mix", ["t_amplitude", "mp_density"]),
                     ("p0_2_mix", ["mp_density", "t_amplitude"]),
                     ("p0_2_mix", "t_amplitude"), ("p0_2_mix", "mp_density"),
                     ("t1_2_once", ["mp_density", "t_amplitude"]),
                     ("t1_2_once", ["t_amplitude", "re_residual"]),
                     ("t1_2_once", "re_residual"),
                     ("t2_2_once", ["re_residual", "t_amplitude", "mp_density"]),
                     ("t2_2_once", "t_amplitude"), ("t2_2_once", ["misc", "t_amplitude"]),
                     ("t2_2_once", "misc")):
    def _mk(inp, types):
        label = types if isinstance(types, str) else "[" + ",".join(types) + "]"

        @tmpl(f"expr.factor_intermediates({inp},types={label})", "expr", "", cost=4)
        def _(w):
            from adcgen import factor_intermediates
            return factor_intermediates(imp(w, inp, real=True, targets=""),
                                        types_or_names=types)
    _mk(_inp, _types)


# the same intermediate factored after different, equally long lists of predecessors: what
# was prepared for one list must not be served for another (seeded change c19_aj)
for _names in (["p0_2_oo", "t1_2"], ["t2_1", "t1_2"], ["p0_2_vv", "t1_2"]):
    def _mk(names):
        @tmpl(f"expr.factor_intermediates(t1_2_once,names=[{','.join(names)}])", "expr", "",
              cost=4)
        def _(w):
            from adcgen import factor_intermediates
            return factor_intermediates(imp(w, "t1_2_once", real=True, targets=""),
                                        types_or_names=list(names))
    _mk(_names)


@tmpl("expr.factor_intermediates(t2_2_once,t2_2)", "expr", "", cost=4)
def _(w):
    from adcgen import factor_intermediates
    return factor_intermediates(imp(w, "t2_2_once", real=True, targets=""),
                                types_or_names=["t2_2"])


@tmpl("expr.factor_intermediates(denoms,t2_1)", "expr", "", cost=3)
def _(w):
    from adcgen import factor_intermediates
    return factor_intermediates(imp(w, "denoms", real=True, targets=""),
                                types_or_names="t2_1")


@tmpl("expr.reduce_expr(t1_2_once)", "expr", "", cost=3)
def _(w):
    from adcgen import reduce_expr
    return reduce_expr(imp(w, "t1_2_once", real=True, targets=""))


@tmpl("expr.reduce_expr(p0_2_mix)", "expr", "", cost=3)
def _(w):
    from adcgen import reduce_expr
    e = imp(w, "p0_2_mix", real=True, targets="").expand_intermediates()
    return reduce_expr(e)


@tmpl("expr.symbolic_denominators(denoms)", "expr", "")
def _(w):
    return imp(w, "denoms", targets="").use_symbolic_denominators()


@tmpl("expr.symbolic_roundtrip(denoms)", "expr", "")
def _(w):
    return imp(w, "denoms", targets="").use_symbolic_denominators().use_explicit_denominators()


@tmpl("expr.spatial(spin2,restricted)", "expr", None, cost=3)
def _(w):
    from adcgen import transform_to_spatial_orbitals
    return transform_to_spatial_orbitals(imp(w, "spin2", real=True), "", "", restricted=True)


@tmpl("expr.spatial(spin2,unrestricted)", "expr", None, cost=3)
def _(w):
    from adcgen import transform_to_spatial_orbitals
    return transform_to_spatial_orbitals(imp(w, "spin2", real=True), "", "", restricted=False)


@tmpl("expr.spatial(perm_sym,abab)", "expr", None, cost=3)
def _(w):
    from adcgen import transform_to_spatial_orbitals
    return transform_to_spatial_orbitals(imp(w, "perm_sym", real=True), "ijab", "abab",
                                         restricted=True)


@tmpl("expr.spatial(perm_sym,aaaa,eri)", "expr", None, cost=3)
def _(w):
    from adcgen import transform_to_spatial_orbitals
    return transform_to_spatial_orbitals(imp(w, "perm_sym", real=True), "ijab", "aaaa",
                                         restricted=False, expand_eri=True)


# spin blocks of one expression: the same target names in another order, the same names
# with another spin string (different blocks, related by a permutation of the targets)
TXT["t2amp"] = r"\frac{{V^{ab}_{ij}}}{{e_{a}} + {e_{b}} - {e_{i}} - {e_{j}}}"
_SPINBLOCKS = [("ijab", "abab"), ("jiab", "abab"), ("ijab", "baba"), ("ijab", "abba"),
               ("ijba", "abab"), ("ijab", "aaaa"), ("jiba", "abab")]
for _key in ("t2amp", "perm_sym"):
    for _tg, _sp in _SPINBLOCKS:
        def _mk(key, tg, sp):
            iid = f"expr.integrate_spin({key},{tg},{sp})"
            tid = f"expr.spatial({key},{tg},{sp},restricted)"
            if (tg, sp) != _SPINBLOCKS[0]:
                NAMEVAR.setdefault(f"expr.integrate_spin({key},ijab,abab)", []).append(iid)
                if key == "t2amp":
                    NAMEVAR.setdefault(f"expr.spatial({key},ijab,abab,restricted)",
                                       []).append(tid)

            @tmpl(iid, "expr", None, cost=1 if key == "t2amp" else 2)
            def _(w):
                from adcgen.spatial_orbitals import integrate_spin
                return integrate_spin(imp(w, key, real=True, targets="ijab"), tg, sp)

            if key == "t2amp":
                @tmpl(tid, "expr", None, cost=2)
                def _(w):
                    from adcgen import transform_to_spatial_orbitals
                    return transform_to_spatial_orbitals(imp(w, key, real=True, targets="ijab"), tg, sp,
                                                         restricted=True, expand_eri=True)
        _mk(_key, _tg, _sp)


@tmpl("expr.wicks(wick3)", "expr", "ia", cost=2)
def _(w):
    from adcgen import wicks
    return wicks(imp(w, "wick3").sympy, simplify_kronecker_deltas=True)


@tmpl("expr.wicks(wick3,nodeltas)", "expr", "ia", cost=2)
def _(w):
    from adcgen import wicks
    return wicks(imp(w, "wick3").sympy, simplify_kronecker_deltas=False)


@tmpl("expr.term_symmetry(perm_sym)", "expr", None)
def _(w):
    e = imp(w, "perm_sym", targets="ijab")
    return [[(str(k), v) for k, v in w.call(t, "symmetry").items()] for t in e.terms]


for _backend in ("einsum", "libtensor"):
    def _mk(backend):
        @tmpl(f"code.generate_code(code3,{backend})", "expr", None, cost=2)
        def _(w):
            from adcgen import generate_code
            e = imp(w, "code3", real=True, targets="ijab")
            return generate_code(e, "ijab", backend=backend)

        @tmpl(f"code.generate_code(code3,{backend},bra_ket,scaling)", "expr", None, cost=2)
        def _(w):
            from adcgen import generate_code
            e = imp(w, "code3", real=True, targets="ijab")
            return generate_code(e, "ijab", backend=backend, bra_ket_sym=0, max_itmd_dim=4)
    _mk(_backend)


for _backend in ("einsum", "libtensor"):
    def _mk(backend):
        @tmpl(f"code.generate_code(pairs,{backend})", "expr", None, cost=2)
        def _(w):
            from adcgen import generate_code
            e = imp(w, "pairs", real=True, targets="de")
            return generate_code(e, "de", backend=backend)
    _mk(_backend)


# the same code generation requests on numbered index names
for _key, _tg in (("code3", "ijab"), ("contr2", "ac"), ("pairs", "de")):
    for _backend in ("einsum", "libtensor"):
        def _mk(key, tg, backend):
            @tmpl(f"code.generate_code({key}_num,{backend})", "expr", None, cost=2)
            def _(w):
                from adcgen import generate_code
                e = imp_num(w, key, real=True, targets=tg)
                return generate_code(e, "".join(_num_name(n) for n in tg), backend=backend)
        _mk(_key, _tg, _backend)

for _key, _tg in (("sym3", "ia"), ("perm_sym", "ijab"), ("alpha3", "")):
    def _mk(key, tg):
        vid = f"expr.numtwin({key})"
        NAMEVAR.setdefault(f"expr.spintwin.plain({key})", []).append(vid)

        @tmpl(vid, "expr", None, cost=2)
        def _(w):
            from adcgen import simplify
            e = imp_num(w, key, targets=tg)
            sym = [[(str(k), v) for k, v in t.symmetry().items()] for t in e.terms]
            osym = [[(str(k), v) for k, v in o.symmetry().items()]
                    for t in e.terms for o in t.objects]
            return [sym, osym, str(simplify(e)), str(e.copy().substitute_contracted())]
    _mk(_key, _tg)


@tmpl("code.optimize_contractions(pairs)", "expr", None)
def _(w):
    from adcgen import optimize_contractions
    e = imp(w, "pairs", real=True, targets="de")
    return [_scheme_repr(optimize_contractions(t, "de")) for t in e.terms]


@tmpl("code.optimize_contractions(code3)", "expr", None)
def _(w):
    from adcgen import optimize_contractions
    e = imp(w, "code3", real=True, targets="ijab")
    return [_scheme_repr(optimize_contractions(t, "ijab")) for t in e.terms]


@tmpl("code.optimize_contractions(code3,max_itmd_dim)", "expr", None)
def _(w):
    from adcgen import optimize_contractions
    e = imp(w, "code3", real=True, targets="ijab")
    return [_scheme_repr(optimize_contractions(t, "ijab", max_itmd_dim=4)) for t in e.terms]


# ----------------------------------------------------------------------------- rejected requests
BAD = []


def bad(id, client):
    def deco(fn):
        BAD.append({"id": id, "client": client, "fn": fn})
        BY_ID[id] = BAD[-1]
        return fn
    return deco


@bad("bad.gs.amplitude(2,ph,ij)", "mp")
def _(w): return w.call(w.gs("mp", False), "amplitude", 2, "ph", "ij")


@bad("bad.gs.amplitude(1,pphh,k4l4c4)", "mp")
def _(w): return w.call(w.gs("mp", False), "amplitude", 1, "pphh", "k4l4c4")


@bad("bad.gs.energy(-1)", "mp")
def _(w): return w.call(w.gs("mp", False), "energy", -1)


@bad("bad.gs.psi(1,middle)", "mp")
def _(w): return w.call(w.gs("mp", False), "psi", 1, "middle")


@bad("bad.isr.precursor(1,ph,ket,pq)", "mp.pp")
def _(w): return w.call(w.isr("mp", "pp"), "precursor", 1, "ph", "ket", "pq")


@bad("bad.isr.precursor(1,p,ket,a)", "mp.pp")
def _(w): return w.call(w.isr("mp", "pp"), "precursor", 1, "p", "ket", "a")


@bad("bad.isr.overlap_precursor(1,ph,ph,ia,ia)", "mp.pp")
def _(w): return w.call(w.isr("mp", "pp"), "overlap_precursor", 1, "ph,ph", "ia,ia")


@bad("bad.m.isr_matrix_block(1,ph,ia)", "mp.pp")
def _(w): return w.call(w.m("mp", "pp"), "isr_matrix_block", 1, "ph", "ia")


@bad("bad.itmd.t2_1.expand_itmd(ija)", "itmd")
def _(w):
    from adcgen import Intermediates
    return Intermediates().available["t2_1"].expand_itmd("ija")


@bad("bad.itmd.t2_1.expand_itmd(abij)", "itmd")
def _(w):
    from adcgen import Intermediates
    return Intermediates().available["t2_1"].expand_itmd("abij")


# rejected half-way: valid names precede the offending one inside one index request
@bad("bad.gs.amplitude(1,pphh,kl,cd)", "mp")
def _(w): return w.call(w.gs("mp", False), "amplitude", 1, "pphh", "kl,cd")


@bad("bad.gs.amplitude(2,ph,j4x)", "mp")
def _(w): return w.call(w.gs("mp", False), "amplitude", 2, "ph", "j4x")


@bad("bad.get_symbols(ijab?)", "expr")
def _(w):
    from adcgen import get_symbols
    return get_symbols("ijab?")


@bad("bad.get_symbols(m5e5z)", "expr")
def _(w):
    from adcgen import get_symbols
    return get_symbols("m5e5z")


@bad("bad.get_symbols(cdkl,spins=abx)", "expr")
def _(w):
    from adcgen import get_symbols
    return get_symbols("cdkl", "abxa")


@bad("bad.itmd.t2_1.expand_itmd(kl;cd)", "itmd")
def _(w):
    from adcgen import Intermediates
    return Intermediates().available["t2_1"].expand_itmd("kl;cd")
