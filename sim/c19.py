"""The C19 world (DESIGN §6): seeded histories of requests from several logical clients
sharing one process, with aborts, rejects, cache loss, skew and configuration changes;
every executed request is compared with the artefacts of the same request in a pristine
session (passed in with the job), and the registry model runs underneath.
"""
import os

from .seeds import derive, digest
from . import catalogue as cat


# ======================================================================== artefacts
def _skeleton(sym, name_map):
    """index-free shape of an expression: multiset over terms of (|prefactor|, atoms)"""
    from sympy import Mul, Pow
    terms = sym.args if sym.is_Add else (sym,)
    out = []

    def atom(a):
        cls = type(a).__name__
        if a.is_Number:
            return None
        if cls == "Pow":
            b, e = a.args
            if b.is_Number:
                return ("num", str(a))
            if type(b).__name__ == "Add":
                return ("bracket", len(b.args), str(e))
            inner = atom(b)
            return ("pow", inner, str(e))
        if cls in ("AntiSymmetricTensor", "Amplitude", "SymmetricTensor"):
            def sp(t):
                return "".join(sorted(_sp(i) for i in t.args))
            return (cls, name_map(a.args[0].name), sp(a.args[1]), sp(a.args[2]),
                    str(a.args[3]))
        if cls == "NonSymmetricTensor":
            return (cls, name_map(a.args[0].name), "".join(_sp(i) for i in a.args[1].args))
        if cls == "KroneckerDelta":
            return (cls, "".join(sorted(_sp(i) for i in a.args)))
        if cls == "NO":
            return ("NO", len(a.args[0].args) if isinstance(a.args[0], Mul) else 1)
        if cls in ("CreateFermion", "AnnihilateFermion"):
            return (cls, _sp(a.args[0]))
        if cls == "Symbol":
            return ("Symbol", name_map(a.name))
        return (cls,)

    for t in terms:
        coeff, rest = t.as_coeff_Mul()
        args = rest.args if isinstance(rest, Mul) else (rest,)
        atoms = sorted(repr(atom(a)) for a in args if not a.is_Number)
        out.append((str(abs(coeff)), atoms))
    out.sort()
    return digest(out, 8), len(terms)


def _sp(i):
    a = i.assumptions0
    s = "o" if a.get("below_fermi") else "v" if a.get("above_fermi") else "g"
    return s + ("a" if a.get("alpha") else "b" if a.get("beta") else "")


def _plain(obj):
    """canonical JSON-able form of a non-expression result"""
    if isinstance(obj, dict):
        return {str(k): _plain(v) for k, v in sorted(obj.items(), key=lambda kv: str(kv[0]))}
    if isinstance(obj, (list, tuple)):
        return [_plain(v) for v in obj]
    if isinstance(obj, (int, str, bool)) or obj is None:
        return obj
    return str(obj)


class Artefacts:
    def __init__(self, world):
        self.w = world

    def of(self, res, t):
        """artefacts of a result (DESIGN §4.4)"""
        import sympy
        from adcgen import Expr
        if isinstance(res, tuple) and len(res) == 2 and not isinstance(res[0], (str, int)) \
                and (res[1] is None or type(res[1]).__name__ == "Rules"):
            res = res[0]
        if isinstance(res, dict) and res and all(
                isinstance(v, (Expr, sympy.Basic)) for v in res.values()):
            parts = {str(k): self.of(v, dict(t, targets=None)) for k, v in res.items()}
            keys = sorted(parts)
            anfs = [parts[k].get("anf") for k in keys]
            # value / structure digests are key-free (keys may contain configured tensor
            # names, e.g. 'no_X'); the keys themselves are compared in default-name runs
            return {"kind": "dict", "keys": keys,
                    "anf": None if any(x is None for x in anfs) else digest(sorted(anfs), 10),
                    "text": digest([(k, parts[k].get("text")) for k in keys], 10),
                    "fp": digest(sorted(str(parts[k].get("fp")) for k in keys), 10),
                    "skel": digest(sorted(str(parts[k].get("skel")) for k in keys), 8),
                    "nterms": sum(parts[k].get("nterms", 0) for k in keys),
                    "full": {k: parts[k].get("full") for k in keys}}
        if isinstance(res, Expr):
            sym, assum = res.sympy, res.assumptions
            if t.get("targets") is None and res.provided_target_idx is not None:
                targets = list(res.provided_target_idx)
            else:
                targets = None
        elif isinstance(res, sympy.Basic):
            sym, assum, targets = res, {}, None
        else:
            p = _plain(res)
            return {"kind": "plain", "text": digest(p, 10), "full": p}
        from adcgen.indices import get_symbols
        if t.get("targets") is not None:
            targets = list(get_symbols(t["targets"])) if t["targets"] else []
        sym = sympy.expand(sym)
        out = {"kind": "expr"}
        nm = self.w.name_map
        out["skel"], out["nterms"] = _skeleton(sym, nm)
        if targets is not None:
            from .alpha import normal_form
            from adcgen.indices import Index
            try:
                out["anf"] = normal_form(sym, targets, nm, Index)
            except Exception as exc:  # noqa: BLE001 - oracle must never kill a run
                out["anf"] = None
                out["anf_err"] = f"{type(exc).__name__}: {exc}"[:120]
        else:
            out["anf"] = None
        # literal text after the library's own renaming of contracted indices
        try:
            kw = {k: v for k, v in assum.items() if k != "target_idx"}
            e = Expr(sym, target_idx=targets, **kw) if targets is not None \
                else Expr(sym, **kw)
            txt = str(e.substitute_contracted())
        except Exception as exc:  # noqa: BLE001
            txt = "!" + type(exc).__name__ + ":" + str(sym)
        out["full"] = txt if len(txt) < 6000 else txt[:6000] + "..."
        out["text"] = digest(txt, 10)
        if t.get("fp", True) and targets is not None:
            from .tensor_model import fingerprint, NotEvaluable
            try:
                out["fp"], _ = fingerprint(sym, targets, model_seeds=(11, 23), n_occ=2,
                                           n_virt=2, name_map=nm, rng_seed=5, limit=8)
            except (NotEvaluable, ZeroDivisionError) as exc:
                out["fp"] = None
                out["fp_skip"] = str(exc)[:80]
        else:
            out["fp"] = None
        return out


# ======================================================================== world
class World:
    """the session's long-lived derivation objects, owned by logical clients"""

    def __init__(self, params, names):
        self.params = params
        self.shared = params.get("shared", True)
        self.names = names
        self.objs = {}
        self.client = "shared"
        self.form = 0
        self.dead_ids = {}
        self.exprs = {}
        self.id_reuse = 0
        self.pending_drop = False
        from .runtime import DEFAULT_NAMES
        inv = {}
        for k, v in names.items():
            inv[v] = DEFAULT_NAMES[k]
        gs_amp, gs_den = names["gs_amplitude"], names["gs_density"]

        def name_map(n, inv=inv):
            if n in inv:
                return inv[n]
            if n.startswith(gs_amp):
                ext = n[len(gs_amp):]
                if ext.replace("c", "").isnumeric() or ext in ("cc",):
                    return DEFAULT_NAMES["gs_amplitude"] + ext
            if n.startswith(gs_den) and n[len(gs_den):].isnumeric():
                return DEFAULT_NAMES["gs_density"] + n[len(gs_den):]
            return n
        self.name_map = name_map if names != DEFAULT_NAMES else (lambda n: n)

    def _key(self, *k):
        return k if self.shared else k + (self.client,)

    def _get(self, key, make):
        key = self._key(*key)
        if key not in self.objs:
            self.objs[key] = self._adversarial_new(key, make)
        return self.objs[key]

    def _adversarial_new(self, key, make):
        """address-space seam: when derivation objects of this kind have been garbage
        collected earlier in the session, construct the new object at one of their old
        addresses if the allocator can be brought to do so (any address reuse is legal
        for CPython; state keyed by id() or by a default hash must not survive it)"""
        dead = self.dead_ids.get(key[0])
        # only the address of a dead object with *other* constructor arguments is interesting
        if not dead or all(k == key for k in dead.values()):
            return make()
        ballast = []
        obj = None
        for _ in range(2500):
            obj = make()
            if dead.get(id(obj), key) != key:
                self.id_reuse += 1
                break
            ballast.append(obj)
        del ballast
        return obj

    def op(self, v):
        from adcgen import Operators
        return self._get(("op", v), lambda: Operators(v))

    def gs(self, v, s=False):
        from adcgen import GroundState
        return self._get(("gs", v, s), lambda: GroundState(self.op(v), s))

    def isr(self, v, kind, s=False):
        from adcgen import IntermediateStates
        return self._get(("isr", v, kind, s),
                         lambda: IntermediateStates(self.gs(v, s), kind))

    def m(self, v, kind, s=False):
        from adcgen import SecularMatrix
        return self._get(("m", v, kind, s), lambda: SecularMatrix(self.isr(v, kind, s)))

    def prop(self, v, kind, s=False):
        from adcgen import Properties
        return self._get(("prop", v, kind, s), lambda: Properties(self.isr(v, kind, s)))

    def call(self, obj, method, *args, **kwargs):
        """issue obj.method(...) in the step's *call form*: the same request written
        positionally, with keywords in declaration order, reversed or rotated, or with the
        defaults spelled out - all of them are the same request"""
        import inspect
        fn = getattr(obj, method)
        form = self.form
        if not form:
            return fn(*args, **kwargs)
        try:
            sig = inspect.signature(fn)
            bound = sig.bind(*args, **kwargs)
        except (TypeError, ValueError):
            return fn(*args, **kwargs)
        if form == 4:
            bound.apply_defaults()
            return fn(*bound.args, **bound.kwargs)
        if form == 5:
            # the documented alternative spelling of blocks / indices: a tuple instead of a
            # comma separated string ("ph,ph" == ("ph", "ph"))
            a2 = [tuple(a.split(",")) if isinstance(a, str) and "," in a else a for a in args]
            k2 = {k: tuple(v.split(",")) if isinstance(v, str) and "," in v else v
                  for k, v in kwargs.items()}
            return fn(*a2, **k2)
        items = list(bound.arguments.items())
        if any(sig.parameters[k].kind not in (inspect.Parameter.POSITIONAL_OR_KEYWORD,)
               for k, _ in items):
            return fn(*args, **kwargs)
        if form == 2:
            items.reverse()
        elif form == 3 and len(items) > 1:
            items = items[1:] + items[:1]
        return fn(**dict(items))

    # cache-loss faults
    def live_keys(self):
        return sorted(self.objs, key=str)

    def drop_cache(self, pick):
        keys = self.live_keys()
        if not keys:
            return None
        k = keys[pick % len(keys)]
        o = self.objs[k]
        # the memo caches live in instance attributes (today: _function_cache and
        # _property_cache); any dict-valued instance attribute with 'cache' in its name counts
        for attr, val in list(vars(o).items()):
            if "cache" in attr.lower() and isinstance(val, dict):
                try:
                    delattr(o, attr)
                except AttributeError:
                    pass
        return str(k)

    def new_obj(self, pick):
        keys = self.live_keys()
        if not keys:
            return None
        k = keys[pick % len(keys)]
        # dependants keep their reference to the old object (as user code would);
        # later lookups through the world get a freshly constructed one
        del self.objs[k]
        return str(k)

    def drop_all(self):
        """the user throws every derivation object away (end of one calculation in a long
        session) - they are garbage collected, later requests construct new ones, possibly at
        the same addresses"""
        # deferred to the start of the next request, so that nothing (not even the
        # harness' own artefact extraction) allocates between the deallocation and the
        # construction of the next calculation's objects
        self.pending_drop = True
        return len(self.objs)

    def flush_drop(self):
        if not self.pending_drop:
            return
        self.pending_drop = False
        if not self.objs:
            return
        import gc
        gc.collect()
        for k, o in self.objs.items():
            self.dead_ids.setdefault(k[0], {})[id(o)] = k
        self.objs.clear()

    def cache_fill_state(self):
        """digest input: which (object, method, args) memo entries exist right now"""
        out = []
        for k in self.live_keys():
            o = self.objs[k]
            for attr, val in sorted(vars(o).items()):
                if "cache" not in attr.lower() or not isinstance(val, dict):
                    continue
                for fn, d in val.items():
                    if isinstance(d, dict):
                        for a in d:
                            out.append((str(k), str(getattr(fn, "__name__", fn)), str(a)))
                    else:
                        out.append((str(k), attr, str(getattr(fn, "__name__", fn))))
        return sorted(out)


# ======================================================================== generation
def templates_for(tier):
    return [t for t in cat.T if tier == "thorough" or t["tier"] == "q"]


def generate(seed, run, tier="quick", overrides=None, template_ids=None):
    rng = derive(seed, "c19", "schedule", run)
    prng = derive(seed, "c19", "params", run)
    faultfree = (run % 3 == 0)
    params = {
        "shared": prng.random() < 0.6,
        "ephemeral": prng.random() < 0.12,
        "dummy_base": prng.randrange(10 ** 6, 9 * 10 ** 6),
        "dummy_count": prng.choice([0, 0, 17, 1000, 123456]),
        "heap_skew": prng.choice([0, 100, 5000, 40000]),
        "log_level": prng.choice(["ERROR", "INFO", "DEBUG"]),
        "clock_step": prng.choice([0.0, 0.001, 3600.0]),
        "abort_mode": "state" if (tier == "quick" or prng.random() < 0.8) else "global",
        "faultfree": faultfree,
    }
    pool = template_ids or [t["id"] for t in templates_for(tier)]
    clients = sorted({cat.BY_ID[i]["client"] for i in pool})
    enabled = [c for c in clients if prng.random() < 0.6] or [prng.choice(clients)]
    pool = [i for i in pool if cat.BY_ID[i]["client"] in enabled]
    budget = prng.choice([6, 10, 16] if tier == "quick" else [10, 20, 40, 60])
    n_req = prng.choice([2, 3, 5, 8] if tier == "quick" else [3, 6, 10, 16, 25, 40])
    max_aborts = 0 if faultfree else prng.choice([0, 1, 2])
    p_bad = 0.0 if faultfree else prng.choice([0.0, 0.1, 0.2])
    p_loss = 0.0 if faultfree else prng.choice([0.0, 0.1, 0.25])
    p_reg = prng.choice([0.0, 0.15, 0.3])
    steps, cost, aborts, last_abort = [], 0, 0, None
    recent = []
    bad_ids = [b["id"] for b in cat.BAD if b["client"] in enabled or True]
    while len([s for s in steps if s["op"] == "req"]) < n_req and cost < budget:
        r = rng.random()
        if r < p_bad:
            steps.append({"op": "bad", "t": rng.choice(bad_ids)})
            continue
        if r < p_bad + p_loss:
            steps.append(rng.choice([
                {"op": "dropcache", "pick": rng.randrange(1 << 20)},
                {"op": "newobj", "pick": rng.randrange(1 << 20)},
                {"op": "dropall"},
                {"op": "sympy.clear_cache"},
                {"op": "dummy.skew", "n": rng.choice([1, 7, 200, 10 ** 5])},
                {"op": "clock.jump", "dt": rng.choice([-5.0, 0.0, 86400.0])}]))
            continue
        if r < p_bad + p_loss + p_reg:
            if rng.random() < 0.5:
                kw = {rng.choice(["occ", "virt", "general", "occ_a", "occ_b", "virt_a",
                                  "virt_b"]): rng.choice([1, 2, 4, 7, 9])}
                steps.append({"op": "reg.generic", "kw": kw})
            else:
                names = [rng.choice("ijklmnoabcdefghpq") +
                         rng.choice(["", "", "1", "2", "3", "4", "5"])
                         for _ in range(rng.choice([1, 2, 4]))]
                steps.append({"op": "reg.get", "names": names})
            continue
        # a request: sometimes repeat a recent one (memo-cache hit)
        if recent and rng.random() < 0.2:
            tid = rng.choice(recent)
        else:
            tid = rng.choice(pool)
        st = {"op": "req", "t": tid}
        if rng.random() < 0.35:
            st["form"] = rng.choice([1, 2, 3, 4, 5])
        c = cat.BY_ID[tid]["cost"]
        if aborts < max_aborts and tid != last_abort and rng.random() < 0.15:
            st["abort"] = {"kind": rng.choice(["kbi", "kbi", "mem"]), "u": rng.random()}
            aborts += 1
            last_abort = tid
            c *= 2
        steps.append(st)
        recent.append(tid)
        cost += c
    if overrides:
        params.update(overrides)
    return params, steps


# ======================================================================== execution
class C19Session:
    def __init__(self, job):
        from adcgen.indices import Indices, Index
        from adcgen.misc import Inputerror
        from . import runtime
        from .registry_model import RegistryModel
        self.job = job
        self.params = job["params"]
        self.ref = job.get("ref") or {}
        self.seams = runtime.apply_session_params(self.params)
        self.Index, self.Inputerror = Index, Inputerror
        self.violations, self.events = [], []
        self.cur_step = -1
        self.ind = Indices()
        self.model = RegistryModel(self.ind, Index, Inputerror, self._on_violation)
        self.world = World(self.params, runtime._state["names"])
        self.art = Artefacts(self.world)
        self.fresh = {"psi": [], "norm": []}
        self.injector = None
        self.fault_fired, self.fault_missed = [], 0
        self.aborted_templates = []
        self.abort_n = []
        self.abort_first_hits = []
        self.counts = {"compared": 0, "H1_value": 0, "H1_text": 0, "H1_struct": 0,
                       "H2_pairs": 0, "H3": 0, "H4": 0, "req": 0, "cache_hit_repeat": 0,
                       "after_fault_req": 0, "no_ref": 0}
        self.walls = {}
        self.seen = set()
        self.fill_states = []

    def _on_violation(self, v):
        v = dict(v)
        v.setdefault("step", self.cur_step)
        v["property"] = "C19"
        self.violations.append(v)

    def viol(self, cls, detail, **kw):
        d = {"class": cls, "detail": detail}
        d.update(kw)
        self._on_violation(d)

    # ---------------------------------------------------------------- steps
    def _call(self, t, form=0):
        self.world.client = t["client"]
        self.world.form = form
        if self.params.get("ephemeral"):
            # a helper function that builds its Operators / GroundState / ... locally:
            # everything of the previous request is garbage by now
            self.world.pending_drop = True
        self.world.flush_drop()
        try:
            return t["fn"](self.world)
        finally:
            self.world.form = 0

    def do_req(self, st):
        t = cat.BY_ID[st["t"]]
        # workload precondition (DESIGN 6.2): a target name of the generic generations is only
        # requested while it has not been handed out as a generic index; afterwards clause
        # (f) of C08 forces the registry to return the very object that sits in earlier
        # results as a contracted index
        if t.get("targets"):
            from .registry_model import split_names, space_of
            for n in split_names(t["targets"]):
                if n[1:] and int(n[1:]) >= 3 and any(
                        self.model.was_generic((space_of(n), sp), n) for sp in ("", "a", "b")):
                    self.counts["precondition_skipped"] = \
                        self.counts.get("precondition_skipped", 0) + 1
                    return ("done", {"outcome": "skipped-precondition"})
        self.counts["req"] += 1
        if st["t"] in self.seen:
            self.counts["cache_hit_repeat"] += 1
        self.seen.add(st["t"])
        if self.fault_fired:
            self.counts["after_fault_req"] += 1
        from . import runtime
        t0 = runtime.REAL_PERF()
        try:
            res = self._call(t, st.get("form", 0))
        except self.Inputerror as exc:
            return ("done", {"outcome": "Inputerror", "msg": str(exc)[:120]})
        except Exception as exc:  # noqa: BLE001
            if str(exc).startswith("injected at"):
                raise
            return ("done", {"outcome": type(exc).__name__, "msg": str(exc)[:200]})
        self.walls[st["t"]] = runtime.REAL_PERF() - t0
        return ("raw", res)

    def post_req(self, st, raw):
        """artefact extraction: runs outside the fault-injection window"""
        tag, res = raw
        if tag == "done":
            return res
        t = cat.BY_ID[st["t"]]
        if t.get("fresh"):
            self._check_fresh(res, t)
        a = self.art.of(res, t)
        a["outcome"] = "value"
        return a

    def _check_fresh(self, res, t):
        """H2: wavefunctions / norm factors never share contracted indices"""
        idx = set(res.atoms(self.Index)) if hasattr(res, "atoms") else set()
        bag = self.fresh[t["fresh"]]
        for other_id, other in bag:
            self.counts["H2_pairs"] += 1
            shared = idx & other
            if shared:
                self.viol("shared-contracted", f"{t['id']} shares contracted indices "
                          f"{sorted(map(str, shared))} with an earlier {other_id}",
                          template=t["id"])
                break
        bag.append((t["id"], idx))

    def compare(self, st, a):
        """H1/H3/H4 against the pristine reference"""
        ref = self.ref.get(st["t"])
        if ref is None:
            self.counts["no_ref"] += 1
            return
        self.counts["compared"] += 1
        tid = st["t"]
        self.counts["H4"] += 1
        if a["outcome"] == "skipped-precondition":
            return
        if a["outcome"] != ref["outcome"]:
            self.viol("outcome", f"{tid}: outcome {a['outcome']} ({a.get('msg')}), pristine "
                      f"session: {ref['outcome']}", template=tid)
            return
        if a["outcome"] != "value":
            return
        config_run = self.world.names != self.ref_names()
        if a.get("fp") is not None and ref.get("fp") is not None:
            self.counts["H1_value"] += 1
            if config_run:
                self.counts["H3"] += 1
            if a["fp"] != ref["fp"]:
                self.viol("value", f"{tid}: value fingerprint {a['fp']} differs from the "
                          f"pristine session's {ref['fp']}; text: {a.get('full')}", template=tid)
                return
        if a.get("anf") is not None and ref.get("anf") is not None:
            self.counts["H1_anf"] = self.counts.get("H1_anf", 0) + 1
            if a["anf"] != ref["anf"]:
                self.viol("structure", f"{tid}: alpha-normal form {a['anf']} differs from the "
                          f"pristine session's {ref['anf']} (not equal modulo renaming of "
                          f"contracted indices and tensor symmetries); text: {a.get('full')}",
                          template=tid)
                return
        if a.get("skel") is not None and ref.get("skel") is not None:
            self.counts["H1_struct"] += 1
            if (a["skel"], a.get("nterms")) != (ref["skel"], ref.get("nterms")):
                self.viol("structure", f"{tid}: {a.get('nterms')} terms / shape {a['skel']} vs "
                          f"pristine {ref.get('nterms')} / {ref['skel']}; text: "
                          f"{a.get('full')} | pristine: {ref.get('full')}", template=tid)
                return
        if a.get("kind") == "dict" and a.get("keys") != ref.get("keys") and not config_run:
            self.viol("structure", f"{tid}: keys {a.get('keys')} vs {ref.get('keys')}",
                      template=tid)
            return
        if not config_run and cat.BY_ID[tid].get("text", True):
            self.counts["H1_text"] += 1
            if a["text"] != ref["text"]:
                self.viol("text", f"{tid}: text after substitute_contracted differs from the "
                          f"pristine session; got: {a.get('full')}", template=tid)

    def ref_names(self):
        from .runtime import DEFAULT_NAMES
        return DEFAULT_NAMES

    def do_bad(self, st):
        b = cat.BY_ID[st["t"]]
        self.world.client = b["client"]
        try:
            b["fn"](self.world)
        except Exception as exc:  # noqa: BLE001
            return {"outcome": type(exc).__name__}
        return {"outcome": "value"}

    def do_step(self, st):
        op = st["op"]
        if op == "req":
            return self.post_req(st, self.do_req(st))
        if op == "bad":
            return self.do_bad(st)
        if op == "reg.generic":
            ret = self.ind.get_generic_indices(**st["kw"])
            return {"n": sum(len(v) for v in ret.values())}
        if op == "reg.get":
            # precondition (DESIGN §6.2): explicit requests never name an index that has
            # already been handed out as a generic one
            names = [n for n in st["names"] if not any(
                self.model.was_generic(k, n) for k in self.model.generic_out)]
            if names:
                self.ind.get_indices(names)
            return {"n": len(names)}
        if op == "dropcache":
            return {"dropped": self.world.drop_cache(st["pick"])}
        if op == "newobj":
            return {"replaced": self.world.new_obj(st["pick"])}
        if op == "dropall":
            return {"dropped": self.world.drop_all()}
        if op == "sympy.clear_cache":
            from sympy.core.cache import clear_cache
            clear_cache()
            return {}
        if op == "dummy.skew":
            from sympy import Dummy
            Dummy._count += st["n"]
            return {}
        if op == "clock.jump":
            self.seams["clock"].jump(st["dt"])
            return {}
        raise ValueError(op)

    # ---------------------------------------------------------------- run
    def run(self, steps):
        from . import runtime
        for i, st in enumerate(steps):
            self.cur_step = i
            ev = {"i": i, "op": st["op"]}
            if "t" in st:
                ev["t"] = st["t"]
            if st["op"] == "req":
                self.fill_states.append(digest(self.world.cache_fill_state(), 6))
            ab = st.get("abort")
            out = None
            if ab and st["op"] == "req" and not self.params.get("no_faults"):
                if self.injector is None:
                    self.injector = runtime.Injector()
                mode = self.params.get("abort_mode", "state")
                n = runtime.count_in_twin(self.injector, mode, lambda: self.do_req(st),
                                          timeout=200)
                self.abort_n.append(n)
                self.abort_first_hits.append(list(self.injector.last_first_hits))
                if n <= 0:
                    self.fault_missed += 1
                    out = self.do_step(st)
                else:
                    k = ab["k"] if "k" in ab else 1 + int(ab["u"] * n)
                    k = min(max(k, 1), n)
                    exc = KeyboardInterrupt if ab["kind"] == "kbi" else MemoryError
                    nv = len(self.violations)
                    fired, res, err = self.injector.run(mode, lambda: self.do_req(st), k, exc)
                    if fired is None:
                        self.fault_missed += 1
                        if err is not None:
                            raise err
                        out = self.post_req(st, res)
                    else:
                        self.violations[nv:] = [v for v in self.violations[nv:]
                                                if v["class"] == "registry"
                                                and v.get("rule") in ("R1", "R2")]
                        fired["kind"], fired["n"] = ab["kind"], n
                        self.fault_fired.append(fired)
                        self.aborted_templates.append(st["t"])
                        ev["abort"] = {k2: fired[k2] for k2 in
                                       ("file", "line", "func", "event", "kind")}
                        self.model._after_failure("abort", exc(), None)
                        self.post_abort_probe()
                        if res is not None and err is None:
                            # the fault was swallowed inside the library and the request
                            # completed: it is held to the full oracle like any other
                            ev["abort"]["swallowed"] = True
                            out = self.post_req(st, res)
            else:
                out = self.do_step(st)
            if out is not None:
                if st["op"] == "req":
                    ev["a"] = {k: out.get(k) for k in ("outcome", "fp", "text", "skel",
                                                      "nterms", "kind", "keys", "anf")}
                    self.compare(st, out)
                    if self.job.get("want_full"):
                        ev["full"] = out.get("full")
                        ev["msg"] = out.get("msg")
                        ev["fp_skip"] = out.get("fp_skip")
                elif st["op"] == "bad":
                    ev["a"] = out
                    ref = self.ref.get(st["t"])
                    if ref is not None and out["outcome"] != ref["outcome"]:
                        self.viol("outcome", f"{st['t']}: {out['outcome']} but the pristine "
                                  f"session gives {ref['outcome']}", template=st["t"])
                else:
                    ev["out"] = out
            lat = self.model.pool_hygiene()
            if lat:
                ev["latent"] = lat
            ev["reg"] = digest(self.model.state_digest_tuple(), 6)
            self.events.append(ev)
        self.epilogue(steps)

    def post_abort_probe(self):
        """right after an aborted request, before anything can repair the damage: every
        live ground state must still hand out wavefunctions that share nothing (H2)"""
        for key in self.world.live_keys():
            if key[0] != "gs":
                continue
            gs = self.world.objs[key]
            bag = []
            try:
                for order, bk in ((1, "ket"), (1, "ket"), (2, "bra"), (1, "bra")):
                    psi = gs.psi(order, bk)
                    idx = set(psi.atoms(self.Index)) if hasattr(psi, "atoms") else set()
                    for prev in bag:
                        self.counts["H2_pairs"] += 1
                        if idx & prev:
                            self.viol("shared-contracted", f"after an aborted request two "
                                      f"wavefunctions of ground state {key} share the indices "
                                      f"{sorted(map(str, idx & prev))}",
                                      template="post-abort.psi")
                            return
                    bag.append(idx)
            except Exception as exc:  # noqa: BLE001
                self.viol("outcome", f"after an aborted request psi() of ground state {key} "
                          f"raises {type(exc).__name__}: {str(exc)[:200]}",
                          template="post-abort.psi")
                return

    def epilogue(self, steps):
        """H5 (recovery): re-issue every aborted request; H2 consequence check"""
        for tid in self.aborted_templates:
            self.cur_step = len(self.events)
            st = {"op": "req", "t": tid}
            ev = {"i": self.cur_step, "op": "req", "t": tid, "reissue": True}
            out = self.do_step(st)
            ev["a"] = {k: out.get(k) for k in ("outcome", "fp", "text", "skel", "nterms",
                                               "anf")}
            self.compare(st, out)
            ev["reg"] = digest(self.model.state_digest_tuple(), 6)
            self.events.append(ev)
        self.cur_step = len(self.events)
        gs = self.world.gs("mp", False)
        t = {"id": "epilogue.psi(1,ket)", "fresh": "psi"}
        for _ in range(2):
            self._check_fresh(gs.psi(1, "ket"), t)
        self._check_fresh(gs.norm_factor(2), {"id": "epilogue.norm_factor(2)",
                                              "fresh": "norm"})
        self._check_fresh(gs.norm_factor(2), {"id": "epilogue.norm_factor(2)",
                                              "fresh": "norm"})


def execute(job):
    from . import runtime
    t0 = runtime.REAL_PERF()
    if job.get("steps") is None:
        params, steps = generate(job["seed"], job["run"], job.get("tier", "quick"),
                                 job.get("overrides"), job.get("template_ids"))
    else:
        params, steps = job["params"], job["steps"]
    job = dict(job, params=params)
    sess = C19Session(job)
    sess.run(steps)
    clock = sess.seams["clock"]
    log = {"events": sess.events, "violations": sess.violations}
    return {
        "kind": job["kind"], "seed": job.get("seed"), "run": job.get("run"),
        "params": params, "steps": steps, "n_steps": len(steps), "env": job.get("env"),
        "digest": digest(log),
        "events": sess.events if (job.get("want_events") or job["kind"] == "c19ref") else None,
        "violations": sess.violations,
        "stats": {"model": sess.model.stats, "counts": sess.counts,
                  "faults_fired": sess.fault_fired, "faults_missed": sess.fault_missed,
                  "abort_n": sess.abort_n,
                  "abort_first_hits": sess.abort_first_hits if job.get("want_first_hits")
                  else None,
                  "latent_states": sum(1 for e in sess.events if "latent" in e),
                  "clock": {"calls": clock.calls, "lo": clock.lo, "hi": clock.hi,
                            "callers": sorted(clock.callers)},
                  "reg_states": sorted({e["reg"] for e in sess.events}),
                  "fill_states": sess.fill_states, "walls": sess.walls,
                  "id_reuse": sess.world.id_reuse,
                  "schedule_digest": digest(steps, 8)},
        "wall_s": runtime.REAL_PERF() - t0,
        "pid_image": {"hashseed": os.environ.get("PYTHONHASHSEED")},
    }
